//! Scenario `jm` (C14, concurrent callers): producer threads feed one shared `StreamJoinManager`
//! (`process_event(&self, ..)`; the per-join `Mutex` is shuttle's) while no watermark moves, so nothing is
//! ever evicted. Whatever the schedule, the pairs handed to the result handler must be exactly the reference
//! inner join of the two sequences, each once — the property's "does not depend on how the arrivals of the
//! two streams are interleaved", with the interleaving decided by the thread scheduler instead of a merge.

use crate::rng::Rng;
use crate::{count, Shared, Violation};
use rust_rule_engine::rete::stream_join_node::{JoinStrategy, JoinType, JoinedEvent, StreamJoinNode};
use rust_rule_engine::streaming::event::StreamEvent;
use rust_rule_engine::streaming::join_manager::StreamJoinManager;
use rust_rule_engine::types::Value;
use serde::{Deserialize, Serialize};
use std::collections::{BTreeMap, BTreeSet, HashMap};
use std::sync::{Arc, Mutex};
use std::time::Duration;

#[derive(Clone, Debug, Serialize, Deserialize, PartialEq)]
pub struct JEv {
    pub key: Option<u8>,
    pub ts: u64,
    pub v: i64,
}

#[derive(Clone, Debug, Serialize, Deserialize)]
pub struct JmWorkload {
    /// window in the unit of the timestamps (seconds)
    pub window: u64,
    /// join condition: 0 always, 1 left.v <= right.v
    pub cond: u8,
    pub left: Vec<JEv>,
    pub right: Vec<JEv>,
    /// how the arrivals are dealt to producer threads: 0 one thread per stream; 1 the left stream is fed by
    /// two threads (even / odd positions), the right one by a third; 2 two threads, each feeding every second
    /// event of BOTH streams
    pub deal: u8,
    /// a second join with the sides swapped is registered on the same two streams
    pub mirror: bool,
}

fn mk_event(side: &str, idx: usize, e: &JEv) -> StreamEvent {
    let mut data = HashMap::new();
    if let Some(k) = e.key {
        data.insert("k".to_string(), Value::String(format!("key{k}")));
    }
    data.insert("v".to_string(), Value::Integer(e.v));
    let mut ev = StreamEvent::with_timestamp("E", data, side, e.ts);
    ev.id = format!("{side}{idx}"); // the id would otherwise derive from the real nanosecond clock
    ev
}

fn key_of(e: &StreamEvent) -> Option<String> {
    match e.data.get("k") {
        Some(Value::String(s)) => Some(s.clone()),
        _ => None,
    }
}

fn payload(e: &StreamEvent) -> i64 {
    match e.data.get("v") {
        Some(Value::Integer(i)) => *i,
        _ => 0,
    }
}

fn node(w: &JmWorkload, swapped: bool) -> StreamJoinNode {
    let cond = w.cond;
    let (l, r) = if swapped { ("right", "left") } else { ("left", "right") };
    StreamJoinNode::new(
        l.to_string(),
        r.to_string(),
        JoinType::Inner,
        JoinStrategy::TimeWindow { duration: Duration::from_secs(w.window) },
        Box::new(key_of),
        Box::new(key_of),
        // the swapped join's "left" argument is an event of the right stream
        Box::new(move |a: &StreamEvent, b: &StreamEvent| {
            let (le, re) = if swapped { (b, a) } else { (a, b) };
            cond % 2 == 0 || payload(le) <= payload(re)
        }),
    )
}

fn reference(w: &JmWorkload) -> BTreeSet<(String, String)> {
    let mut p = BTreeSet::new();
    for (i, l) in w.left.iter().enumerate() {
        for (j, r) in w.right.iter().enumerate() {
            if l.key.is_some() && l.key == r.key && (l.ts as i64 - r.ts as i64).unsigned_abs() <= w.window && (w.cond % 2 == 0 || l.v <= r.v) {
                p.insert((format!("left{i}"), format!("right{j}")));
            }
        }
    }
    p
}

fn fail(slot: &Shared, clause: &str, sig: &str, msg: String) -> ! {
    slot.lock().unwrap().violation = Some(Violation { property: "C14".into(), clause: clause.into(), site: "StreamJoinManager::process_event (concurrent callers)".into(), signature: sig.into(), message: msg.clone() });
    panic!("VIOLATION {clause}: {msg}");
}

pub fn scenario(w: &JmWorkload, slot: &Shared) {
    use shuttle::thread;
    type Sink = Arc<Mutex<Vec<(String, String)>>>; // std mutex: taken and released without a scheduling point
    let names = |je: &JoinedEvent| (je.left.as_ref().map(|e| e.id.clone()).unwrap_or_default(), je.right.as_ref().map(|e| e.id.clone()).unwrap_or_default());
    let sink: Sink = Arc::new(Mutex::new(Vec::new()));
    let mirror_sink: Sink = Arc::new(Mutex::new(Vec::new()));
    let mut m = StreamJoinManager::new();
    let s2 = sink.clone();
    m.register_join("j".to_string(), node(w, false), Box::new(move |je| s2.lock().unwrap().push(names(&je))));
    if w.mirror {
        let s3 = mirror_sink.clone();
        m.register_join("mirror".to_string(), node(w, true), Box::new(move |je| s3.lock().unwrap().push(names(&je))));
    }
    let m = Arc::new(m);
    // deal the arrivals
    let lefts: Vec<StreamEvent> = w.left.iter().enumerate().map(|(i, e)| mk_event("left", i, e)).collect();
    let rights: Vec<StreamEvent> = w.right.iter().enumerate().map(|(i, e)| mk_event("right", i, e)).collect();
    let mut hands: Vec<Vec<StreamEvent>> = match w.deal % 3 {
        0 => vec![lefts, rights],
        1 => vec![lefts.iter().step_by(2).cloned().collect(), lefts.iter().skip(1).step_by(2).cloned().collect(), rights],
        _ => {
            let mut a: Vec<StreamEvent> = lefts.iter().step_by(2).cloned().collect();
            a.extend(rights.iter().skip(1).step_by(2).cloned());
            let mut b: Vec<StreamEvent> = rights.iter().step_by(2).cloned().collect();
            b.extend(lefts.iter().skip(1).step_by(2).cloned());
            vec![a, b]
        }
    };
    hands.retain(|h| !h.is_empty());
    let producers = hands.len();
    let mut handles = Vec::new();
    for hand in hands {
        let m = m.clone();
        handles.push(thread::spawn(move || {
            for ev in hand {
                m.process_event(ev);
            }
        }));
    }
    for h in handles {
        if h.join().is_err() {
            fail(slot, "join.no-panic", "producer-thread-panicked", "a producer thread panicked inside StreamJoinManager::process_event".to_string());
        }
    }
    let want = reference(w);
    let judge = |got: &[(String, String)], swapped: bool, what: &str| {
        let mut n: BTreeMap<(String, String), u32> = BTreeMap::new();
        for (a, b) in got {
            // the swapped join reports the right-stream event as its left
            let pair = if swapped { (b.clone(), a.clone()) } else { (a.clone(), b.clone()) };
            *n.entry(pair).or_insert(0) += 1;
        }
        if let Some((p, _)) = n.iter().find(|(p, _)| !want.contains(*p)) {
            fail(slot, "join.no-false", "pair-outside-the-reference-join", format!("{what} emitted {p:?}, which is not in the reference join {want:?}"));
        }
        if let Some((p, k)) = n.iter().find(|(_, k)| **k > 1) {
            fail(slot, "join.once", "pair-emitted-more-than-once", format!("{what} emitted {p:?} {k} times"));
        }
        if let Some(p) = want.iter().find(|p| !n.contains_key(*p)) {
            fail(slot, "join.complete", "pair-missing-under-concurrent-callers", format!("{what} never emitted {p:?} although nothing was evicted (no watermark moved); emitted {:?}", n.keys().collect::<Vec<_>>()));
        }
    };
    judge(&sink.lock().unwrap(), false, "the join");
    if w.mirror {
        judge(&mirror_sink.lock().unwrap(), true, "the join with the sides swapped");
    }
    let mut s = slot.lock().unwrap();
    s.nontrivial = producers >= 2 && !want.is_empty();
    s.fingerprint = 1; // one per workload: the observable (a set of pairs) does not expose the interleaving
    drop(s);
    if producers >= 3 {
        count(slot, "probe.three_producer_threads");
    }
    if w.mirror {
        count(slot, "probe.two_joins_on_the_same_streams");
    }
    if !want.is_empty() {
        count(slot, "probe.reference_join_not_empty");
    }
}

pub fn generate(rng: &mut Rng, _thorough: bool) -> JmWorkload {
    let nkeys = 1 + rng.below(3);
    let mut side = |rng: &mut Rng| -> Vec<JEv> {
        let n = rng.usize(5);
        (0..n).map(|_| JEv { key: if rng.chance(1, 10) { None } else { Some(rng.below(nkeys) as u8) }, ts: rng.below(8), v: rng.range(0, 3) }).collect()
    };
    let left = side(rng);
    let right = side(rng);
    JmWorkload { window: *rng.pick(&[0u64, 1, 2, 3, 10]), cond: rng.below(2) as u8, left, right, deal: rng.below(3) as u8, mirror: rng.chance(1, 3) }
}

pub fn shrink(w: &JmWorkload) -> Vec<JmWorkload> {
    let mut out = Vec::new();
    for i in 0..w.left.len() {
        let mut c = w.clone();
        c.left.remove(i);
        out.push(c);
    }
    for i in 0..w.right.len() {
        let mut c = w.clone();
        c.right.remove(i);
        out.push(c);
    }
    if w.mirror {
        out.push(JmWorkload { mirror: false, ..w.clone() });
    }
    if w.deal % 3 != 0 {
        out.push(JmWorkload { deal: 0, ..w.clone() });
    }
    if w.cond % 2 != 0 {
        out.push(JmWorkload { cond: 0, ..w.clone() });
    }
    if w.window != 10 {
        out.push(JmWorkload { window: 10, ..w.clone() });
    }
    out
}

pub fn describe() -> (&'static str, Vec<&'static str>, Vec<&'static str>, Vec<&'static str>) {
    (
        "workloads: two event sequences (0-4 events a side, 1-3 keys, some events without a key, timestamps 0-7, window 0/1/2/3/10) dealt to 2-3 producer \
         threads (one per stream; the left stream split over two threads; or two threads feeding both streams), all calling process_event on one shared \
         StreamJoinManager, optionally with a second join (sides swapped) registered on the same streams; no watermark moves, so nothing is evicted; every \
         workload runs under N seeded schedules. evaluations = schedules executed. A schedule is non-trivial iff at least two producers ran and the \
         reference join is not empty; distinct = distinct workloads among those (the observable, a set of pairs, does not expose the interleaving)",
        vec!["StreamJoinManager (the per-join Mutex is shuttle's)", "StreamJoinNode", "StreamEvent"],
        vec!["thread scheduler (shuttle RandomScheduler / PCT, seeded)", "producer threads", "result handler (pushes ids to a vector)"],
        vec!["the manager itself is not reconfigured while producers run (register_join / unregister_join take &mut self)", "timestamps and the window are whole seconds, as in the sequential world"],
    )
}
