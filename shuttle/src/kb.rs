//! Scenario `kb` (C15): client threads drive one shared `KnowledgeBase` (its three `RwLock`s are
//! shuttle's); invoke/return events are stamped with a global sequence counter and the history
//! is checked for linearizability against a sequential model (Wing-Gong search).

use crate::rng::Rng;
use crate::{count, Shared, Violation};
use rust_rule_engine::engine::knowledge_base::KnowledgeBase;
use rust_rule_engine::engine::rule::{Condition, ConditionGroup, Rule};
use rust_rule_engine::types::{Operator, Value};
use serde::{Deserialize, Serialize};
use std::collections::{BTreeMap, BTreeSet, HashSet};
use std::sync::atomic::{AtomicU64, Ordering};
use std::sync::{Arc, Mutex};

/// salience pool: three ordinary values and the two extremes (one add in ten draws an extreme)
const SAL: [i32; 5] = [0, 5, -3, i32::MAX, i32::MIN];
/// saliences written into GRL text (the GRL reader's handling of a minus sign is the parser's business, not C15's)
const GSAL: [i32; 3] = [0, 5, 7];

#[derive(Clone, Debug, Serialize, Deserialize, PartialEq)]
pub enum KOp {
    /// add_rule(name, salience); the description is unique so that a read is attributable to one write
    Add { name: u8, sal: u8, uid: u32 },
    Remove { name: u8 },
    SetEnabled { name: u8, on: bool },
    Clear,
    GetRule { name: u8 },
    GetRules,
    Names,
    Count,
    BySalience,
    /// get_rule_by_index(i)
    ByIndex { i: u8 },
    Version,
    Stats,
    /// `kb.clone()`, a listing of the copy, then a change applied to THE COPY (kind 0 add, 1 remove, 2 disable,
    /// 3 clear): for the shared knowledge base this is a read — the copy is a knowledge base of its own, and
    /// nothing done to it may show in the original's rules, lookups or version
    CloneMutate { kind: u8, name: u8, sal: u8, uid: u32 },
    /// `add_rules_from_grl(text)` with 1-3 rules (name, salience) in one text — names may repeat inside the text.
    /// The call is a sequence of add_rule calls that stops at the first rejected one; it is generated in the
    /// sequential prefix and in one-thread workloads only, where that is also its meaning as one operation
    AddGrl { items: Vec<(u8, u8)> },
}

#[derive(Clone, Debug, Serialize, Deserialize)]
pub struct KbWorkload {
    pub initial: Vec<KOp>,
    pub threads: Vec<Vec<KOp>>,
    /// 1: the four rule names differ only in case, white space or a trailing character
    #[serde(default)]
    pub names: u8,
}

/// observable outcome of an operation (order-insensitive where the API returns a hash-ordered collection)
#[derive(Clone, Debug, PartialEq, Eq, Hash)]
pub enum Res {
    AddOk,
    AddDup,
    Bool(bool),
    Unit,
    Rule(Option<(String, i32, bool, String)>),
    Rules(Vec<(String, i32, bool, String)>),
    Names(BTreeSet<String>),
    Num(u64),
    Indices(Vec<usize>),
    Stats { version: u64, total: usize, enabled: usize, disabled: usize, dist: BTreeMap<i32, usize> },
}

thread_local! {
    /// naming style of the workload executing on this thread (KbWorkload::names)
    static NAMES: std::cell::Cell<u8> = const { std::cell::Cell::new(0) };
}

fn rname(n: u8) -> String {
    // 0..=3: the four names every operation draws from; 4..: the bulk of a large knowledge base
    // naming style 1: the four names differ only in case, white space or a trailing character
    if NAMES.with(|x| x.get()) == 1 && n < 4 {
        return ["rule", "Rule", "rule ", "rule1"][n as usize].to_string();
    }
    format!("N{n}")
}

fn mk_rule(name: u8, sal: u8, uid: u32) -> Rule {
    let cond = ConditionGroup::single(Condition::new("F.x".to_string(), Operator::Equal, Value::Integer(1)));
    Rule::new(rname(name), cond, vec![]).with_salience(SAL[sal as usize % 5]).with_description(format!("uid{uid}"))
}

fn view(r: &Rule) -> (String, i32, bool, String) {
    (r.name.clone(), r.salience, r.enabled, r.description.clone().unwrap_or_default())
}

fn grl_text(items: &[(u8, u8)]) -> String {
    items.iter().map(|(n, s)| format!("rule \"{}\" salience {} {{\n  when\n    F.x == 1\n  then\n    F.y = 1;\n}}\n", rname(*n), GSAL[*s as usize % 3])).collect()
}

fn apply_real(kb: &KnowledgeBase, op: &KOp) -> Res {
    match op {
        KOp::AddGrl { items } => match kb.add_rules_from_grl(&grl_text(items)) {
            Ok(n) => Res::Num(n as u64),
            Err(_) => Res::AddDup,
        },
        KOp::Add { name, sal, uid } => match kb.add_rule(mk_rule(*name, *sal, *uid)) {
            Ok(()) => Res::AddOk,
            Err(_) => Res::AddDup,
        },
        KOp::Remove { name } => Res::Bool(kb.remove_rule(&rname(*name)).unwrap_or(false)),
        KOp::SetEnabled { name, on } => Res::Bool(kb.set_rule_enabled(&rname(*name), *on).unwrap_or(false)),
        KOp::Clear => {
            kb.clear();
            Res::Unit
        }
        KOp::GetRule { name } => Res::Rule(kb.get_rule(&rname(*name)).map(|r| view(&r))),
        KOp::GetRules => Res::Rules(kb.get_rules().iter().map(view).collect()),
        KOp::Names => Res::Names(kb.get_rule_names().into_iter().collect()),
        KOp::Count => Res::Num(kb.rule_count() as u64),
        KOp::BySalience => Res::Indices(kb.get_rules_by_salience()),
        KOp::ByIndex { i } => Res::Rule(kb.get_rule_by_index(*i as usize).map(|r| view(&r))),
        KOp::Version => Res::Num(kb.version()),
        KOp::Stats => {
            let s = kb.get_statistics();
            Res::Stats { version: s.version, total: s.total_rules, enabled: s.enabled_rules, disabled: s.disabled_rules, dist: s.priority_distribution.into_iter().collect() }
        }
        KOp::CloneMutate { kind, name, sal, uid } => {
            let copy = kb.clone();
            let listing = copy.get_rules().iter().map(view).collect();
            match kind % 4 {
                0 => {
                    let _ = copy.add_rule(mk_rule(*name, *sal, *uid));
                }
                1 => {
                    let _ = copy.remove_rule(&rname(*name));
                }
                2 => {
                    let _ = copy.set_rule_enabled(&rname(*name), false);
                }
                _ => copy.clear(),
            }
            Res::Rules(listing)
        }
    }
}

/// the sequential model: a stable-sorted vector, lookups by name, a version counter
#[derive(Clone, Debug, PartialEq, Eq, Hash, Default)]
pub struct Model {
    rules: Vec<(String, i32, bool, String)>,
    version: u64,
}

impl Model {
    fn apply(&mut self, op: &KOp) -> Res {
        match op {
            KOp::AddGrl { items } => {
                for (name, sal) in items {
                    let n = rname(*name);
                    if self.rules.iter().any(|r| r.0 == n) {
                        return Res::AddDup; // the rules before it stay, this one and the rest are not added
                    }
                    self.rules.push((n, GSAL[*sal as usize % 3], true, String::new()));
                    self.rules.sort_by_key(|r| std::cmp::Reverse(r.1));
                    self.version += 1;
                }
                Res::Num(items.len() as u64)
            }
            KOp::Add { name, sal, uid } => {
                let n = rname(*name);
                if self.rules.iter().any(|r| r.0 == n) {
                    return Res::AddDup; // rejected without effect
                }
                self.rules.push((n, SAL[*sal as usize % 5], true, format!("uid{uid}")));
                self.rules.sort_by_key(|r| std::cmp::Reverse(r.1)); // stable: insertion order among equals
                self.version += 1;
                Res::AddOk
            }
            KOp::Remove { name } => {
                let n = rname(*name);
                match self.rules.iter().position(|r| r.0 == n) {
                    Some(p) => {
                        self.rules.remove(p);
                        self.version += 1;
                        Res::Bool(true)
                    }
                    None => Res::Bool(false),
                }
            }
            KOp::SetEnabled { name, on } => {
                let n = rname(*name);
                match self.rules.iter_mut().find(|r| r.0 == n) {
                    Some(r) => {
                        r.2 = *on;
                        self.version += 1;
                        Res::Bool(true)
                    }
                    None => Res::Bool(false),
                }
            }
            KOp::Clear => {
                self.rules.clear();
                self.version += 1;
                Res::Unit
            }
            KOp::GetRule { name } => Res::Rule(self.rules.iter().find(|r| r.0 == rname(*name)).cloned()),
            KOp::GetRules | KOp::CloneMutate { .. } => Res::Rules(self.rules.clone()),
            KOp::Names => Res::Names(self.rules.iter().map(|r| r.0.clone()).collect()),
            KOp::Count => Res::Num(self.rules.len() as u64),
            KOp::BySalience => Res::Indices((0..self.rules.len()).collect()),
            KOp::ByIndex { i } => Res::Rule(self.rules.get(*i as usize).cloned()),
            KOp::Version => Res::Num(self.version),
            KOp::Stats => {
                let mut dist = BTreeMap::new();
                for r in &self.rules {
                    *dist.entry(r.1).or_insert(0) += 1;
                }
                let enabled = self.rules.iter().filter(|r| r.2).count();
                Res::Stats { version: self.version, total: self.rules.len(), enabled, disabled: self.rules.len() - enabled, dist }
            }
        }
    }
}

#[derive(Clone, Debug)]
pub struct Event {
    pub thread: usize,
    pub op: KOp,
    pub res: Res,
    pub invoke: u64,
    pub ret: u64,
}

/// Wing-Gong: is there a total order of the operations that respects real time (a returned before b
/// was invoked => a before b) and that the sequential model reproduces?
pub fn linearizable(start: &Model, h: &[Event]) -> bool {
    fn go(done: u32, m: &Model, h: &[Event], seen: &mut HashSet<(u32, Model)>) -> bool {
        let n = h.len();
        if done == (1u32 << n) - 1 {
            return true;
        }
        if !seen.insert((done, m.clone())) {
            return false;
        }
        // earliest return among the operations not yet linearized: anything invoked after it cannot go next
        let min_ret = (0..n).filter(|i| done & (1 << i) == 0).map(|i| h[i].ret).min().unwrap();
        for i in 0..n {
            if done & (1 << i) != 0 || h[i].invoke > min_ret {
                continue;
            }
            let mut m2 = m.clone();
            if m2.apply(&h[i].op) == h[i].res && go(done | (1 << i), &m2, h, seen) {
                return true;
            }
        }
        false
    }
    if h.len() > 24 {
        return true;
    }
    go(0, start, h, &mut HashSet::new())
}

pub fn scenario(w: &KbWorkload, slot: &Shared) {
    use shuttle::thread;
    // (shuttle runs every task of an execution on the OS thread that called the runner, so a std thread-local
    // set here is what the client tasks and the model see)
    NAMES.with(|x| x.set(w.names));
    let kb = Arc::new(KnowledgeBase::new("kb"));
    let seq = Arc::new(AtomicU64::new(0)); // std atomic: no scheduling point
    let log: Arc<Mutex<Vec<Event>>> = Arc::new(Mutex::new(Vec::new()));
    // sequential prefix
    let mut model = Model::default();
    for (k, op) in w.initial.iter().enumerate() {
        let got = apply_real(&kb, op);
        let want = model.apply(op);
        if got != want {
            fail(slot, "kb.sequential", "sequential-history-differs-from-model", format!("initial op #{k} {op:?}: got {got:?}, the model gives {want:?}"));
        }
    }
    let start = model.clone();
    let mut handles = Vec::new();
    for (t, ops) in w.threads.iter().enumerate() {
        let (kb, seq, log, ops) = (kb.clone(), seq.clone(), log.clone(), ops.clone());
        handles.push(thread::spawn(move || {
            for op in ops {
                let invoke = seq.fetch_add(1, Ordering::SeqCst);
                let res = apply_real(&kb, &op);
                let ret = seq.fetch_add(1, Ordering::SeqCst);
                log.lock().unwrap().push(Event { thread: t, op, res, invoke, ret });
            }
        }));
    }
    for h in handles {
        if h.join().is_err() {
            fail(slot, "kb.no-panic", "client-thread-panicked", "a client thread panicked inside a KnowledgeBase call".to_string());
        }
    }
    // final reads, after every thread has returned: they pin down the final state
    let mut h: Vec<Event> = log.lock().unwrap().clone();
    for op in [KOp::GetRules, KOp::Names, KOp::Count, KOp::Version, KOp::Stats, KOp::BySalience] {
        let invoke = seq.fetch_add(1, Ordering::SeqCst);
        let res = apply_real(&kb, &op);
        let ret = seq.fetch_add(1, Ordering::SeqCst);
        h.push(Event { thread: usize::MAX, op, res, invoke, ret });
    }
    // cheap structural clauses first
    if let Some(Res::Rules(rs)) = h.iter().find(|e| e.thread == usize::MAX && e.op == KOp::GetRules).map(|e| e.res.clone()) {
        let mut names = BTreeSet::new();
        for r in &rs {
            if !names.insert(r.0.clone()) {
                fail(slot, "kb.final-state", "rule-listed-twice", format!("final listing holds {} twice: {rs:?}", r.0));
            }
        }
        if rs.windows(2).any(|p| p[0].1 < p[1].1) {
            fail(slot, "kb.final-state", "listing-not-in-descending-salience", format!("final listing is not in descending salience: {rs:?}"));
        }
    }
    if !linearizable(&start, &h) {
        let concurrent = w.threads.len() > 1;
        let text: Vec<String> = h.iter().map(|e| format!("[t{} {}..{}] {:?} -> {:?}", if e.thread == usize::MAX { 9 } else { e.thread }, e.invoke, e.ret, e.op, e.res)).collect();
        fail(
            slot,
            if concurrent { "kb.linearizable" } else { "kb.sequential" },
            if concurrent { "history-has-no-linearisation" } else { "sequential-history-differs-from-model" },
            format!("no order of these operations consistent with real time is reproduced by the sequential model (start {start:?}):\n{}", text.join("\n")),
        );
    }
    // evidence: was there real overlap, which interleaving was it
    let mut s = slot.lock().unwrap();
    let evs: Vec<&Event> = h.iter().filter(|e| e.thread != usize::MAX).collect();
    let overlap = evs.iter().any(|a| evs.iter().any(|b| a.thread != b.thread && a.invoke < b.ret && b.invoke < a.ret));
    let mut order: Vec<(u64, usize)> = evs.iter().map(|e| (e.invoke, e.thread)).collect();
    order.sort();
    let switches = order.windows(2).filter(|p| p[0].1 != p[1].1).count();
    s.nontrivial = w.threads.len() > 1 && (overlap || switches >= 2);
    let mut fp: u64 = 0xcbf29ce484222325;
    let mut stamps: Vec<(u64, usize, u8)> = evs.iter().flat_map(|e| [(e.invoke, e.thread, 0u8), (e.ret, e.thread, 1u8)]).collect();
    stamps.sort();
    for (_, t, k) in stamps {
        fp = (fp ^ (t as u64 * 2 + k as u64)).wrapping_mul(0x100000001b3);
    }
    s.fingerprint = fp;
    drop(s);
    if overlap {
        count(slot, "probe.operations_overlapped_in_time");
    }
    if w.threads.len() == 1 {
        count(slot, "probe.sequential_history");
    }
    if h.iter().any(|e| e.res == Res::AddDup) {
        count(slot, "probe.duplicate_name_rejected");
    }
    if h.iter().any(|e| matches!(e.op, KOp::Remove { .. }) && e.res == Res::Bool(true)) {
        count(slot, "probe.rule_removed");
    }
    if w.initial.len() > 20 {
        count(slot, "probe.large_knowledge_base");
    }
    if w.initial.len() > 64 {
        count(slot, "probe.knowledge_base_of_more_than_64_rules");
    }
    if w.names == 1 {
        count(slot, "probe.names_that_differ_only_in_case_or_white_space");
    }
    if h.iter().any(|e| matches!(e.op, KOp::CloneMutate { .. })) {
        count(slot, "probe.copy_of_the_knowledge_base_changed");
    }
    let repeats = |items: &Vec<(u8, u8)>| items.iter().enumerate().any(|(i, a)| items[..i].iter().any(|b| b.0 == a.0));
    if w.initial.iter().chain(w.threads.iter().flatten()).any(|o| matches!(o, KOp::AddGrl { items } if repeats(items))) {
        count(slot, "probe.grl_text_with_a_repeated_rule_name");
    }
}

fn fail(slot: &Shared, clause: &str, sig: &str, msg: String) -> ! {
    slot.lock().unwrap().violation = Some(Violation { property: "C15".into(), clause: clause.into(), site: "KnowledgeBase".into(), signature: sig.into(), message: msg.clone() });
    panic!("VIOLATION {clause}: {msg}");
}

pub fn generate(rng: &mut Rng, thorough: bool) -> KbWorkload {
    let mut uid = 0u32;
    let mut gen_op = |rng: &mut Rng| -> KOp {
        match rng.weighted(&[28, 12, 8, 3, 10, 8, 6, 5, 4, 5, 6, 5, 4]) {
            0 => {
                uid += 1;
                KOp::Add { name: rng.below(4) as u8, sal: if rng.chance(1, 10) { 3 + rng.below(2) as u8 } else { rng.below(3) as u8 }, uid }
            }
            1 => KOp::Remove { name: rng.below(4) as u8 },
            2 => KOp::SetEnabled { name: rng.below(4) as u8, on: rng.chance(1, 2) },
            3 => KOp::Clear,
            4 => KOp::GetRule { name: rng.below(4) as u8 },
            5 => KOp::GetRules,
            6 => KOp::Names,
            7 => KOp::Count,
            8 => KOp::BySalience,
            9 => KOp::ByIndex { i: rng.below(4) as u8 },
            10 => KOp::Version,
            11 => KOp::Stats,
            _ => {
                uid += 1;
                KOp::CloneMutate { kind: rng.below(4) as u8, name: rng.below(4) as u8, sal: rng.below(3) as u8, uid }
            }
        }
    };
    let nthreads = *rng.pick(&[1usize, 2, 2, 2, 3, 3]);
    let per = if nthreads == 1 { 1 + rng.usize(8) } else { 1 + rng.usize(if thorough { 4 } else { 4 }) };
    let mut initial: Vec<KOp> = (0..rng.usize(4)).map(|_| gen_op(rng)).collect();
    // rules loaded from GRL text, several to a text (sequential prefix and one-thread workloads)
    let gen_grl = |rng: &mut Rng| KOp::AddGrl { items: (0..1 + rng.usize(3)).map(|_| (rng.below(4) as u8, rng.below(3) as u8)).collect() };
    if rng.chance(1, 10) {
        let at = rng.usize(initial.len() + 1);
        initial.insert(at, gen_grl(rng));
    }
    // one workload in twelve starts from a large knowledge base (21-40 further rules with salience ties):
    // sorting and index maintenance behave differently on long vectors than on four entries
    if rng.chance(1, 12) {
        // (one large knowledge base in four holds more than 64 rules)
        let n = if rng.chance(1, 4) { 65 + rng.usize(36) } else { 21 + rng.usize(20) };
        for i in 0..n {
            initial.push(KOp::Add { name: 4 + i as u8, sal: rng.below(3) as u8, uid: 1000 + i as u32 });
        }
        initial.push(KOp::GetRules);
    }
    let mut threads: Vec<Vec<KOp>> = (0..nthreads).map(|_| (0..per).map(|_| gen_op(rng)).collect()).collect();
    if nthreads == 1 && rng.chance(1, 4) {
        let at = rng.usize(threads[0].len() + 1);
        threads[0].insert(at, gen_grl(rng));
    }
    // one workload in six (those without GRL text: what the GRL reader does to a name is not C15's business) uses
    // names that differ only in case, white space or a trailing character
    let has_grl = initial.iter().chain(threads.iter().flatten()).any(|o| matches!(o, KOp::AddGrl { .. }));
    let names = if !has_grl && rng.chance(1, 6) { 1 } else { 0 };
    KbWorkload { initial, threads, names }
}

pub fn shrink(w: &KbWorkload) -> Vec<KbWorkload> {
    let mut out = Vec::new();
    if w.names != 0 {
        let mut c = w.clone();
        c.names = 0;
        out.push(c);
    }
    if w.threads.len() > 1 {
        for t in 0..w.threads.len() {
            let mut c = w.clone();
            c.threads.remove(t);
            out.push(c);
        }
    }
    for t in 0..w.threads.len() {
        for i in 0..w.threads[t].len() {
            let mut c = w.clone();
            c.threads[t].remove(i);
            out.push(c);
        }
    }
    for i in 0..w.initial.len() {
        let mut c = w.clone();
        c.initial.remove(i);
        out.push(c);
    }
    out
}

pub fn describe() -> (&'static str, Vec<&'static str>, Vec<&'static str>, Vec<&'static str>) {
    (
        "workloads: 0-3 sequential operations (one workload in twelve: 21-40 further add_rule calls with salience ties and a listing, so that the knowledge base is large), then 1-3 client threads x 1-4 operations (one thread: up to 8) from add_rule (4 names x 3 \
         saliences, unique description per add), remove_rule, set_rule_enabled, clear, get_rule, get_rules, get_rule_names, rule_count, \
         get_rules_by_salience, get_rule_by_index, version, get_statistics, clone-then-change-the-copy, followed by final reads after the join; every workload runs \
         under N seeded schedules. evaluations = schedules executed. A schedule is non-trivial iff two operations of different threads \
         overlapped in time or the threads' operations alternated at least twice; distinct = distinct (workload, order of invoke/return \
         events) pairs",
        vec!["KnowledgeBase (rules / name index / version behind shuttle's RwLock)", "Rule"],
        vec!["thread scheduler (shuttle RandomScheduler / PCT, seeded)", "client threads", "global event counter (std atomic, no scheduling point)"],
        vec![
            "get_rules_by_salience followed by get_rule_by_index is recorded as two operations; the pair is not claimed to be atomic",
            "get_rule_names is compared as a set (its order comes out of a HashMap)",
            "sampling, not the exhaustive enumeration the property's quantifier mentions: this family samples schedules",
        ],
    )
}
