//! shrun — the real KnowledgeBase / ParallelRuleEngine compiled against shuttle's sync and
//! thread primitives (cfg rre_verif_shuttle) and run under shuttle's seeded schedulers.
//!
//!   shrun check C15|C19|C14 [--tier quick|thorough] [--seed N] [--workloads N] [--schedules N] [--evidence FILE]
//!   shrun --replay FILE [--confirm]
//!
//! Exit 0: held on everything explored; 1: `VIOLATION property=<id> replay=<path>` printed; 2: harness error.

#[path = "../../sim/src/core/rng.rs"]
mod rng;

mod jm;
mod kb;
mod par;

use rng::Rng;
use serde::{Deserialize, Serialize};
use serde_json::{json, Value as Json};
use std::collections::{BTreeMap, HashSet};
use std::io::Write;
use std::sync::atomic::{AtomicBool, AtomicU64, Ordering};
use std::sync::{Arc, Mutex};
use std::time::Instant;

pub const DEFAULT_SEED: u64 = 20260925;

#[derive(Clone, Debug, Serialize, Deserialize, PartialEq)]
pub struct Violation {
    pub property: String,
    pub clause: String,
    pub site: String,
    pub signature: String,
    pub message: String,
}

impl Violation {
    pub fn same_class(&self, o: &Violation) -> bool {
        self.property == o.property && self.clause == o.clause && self.site == o.site && self.signature == o.signature
    }
}

/// what one schedule of one workload reports back to the driver
#[derive(Default)]
pub struct Slot {
    pub violation: Option<Violation>,
    pub counters: BTreeMap<String, u64>,
    pub fingerprint: u64,
    pub nontrivial: bool,
}

pub type Shared = Arc<Mutex<Slot>>;

pub fn count(slot: &Shared, k: &str) {
    *slot.lock().unwrap().counters.entry(k.to_string()).or_insert(0) += 1;
}

#[derive(Clone, Debug, Serialize, Deserialize)]
pub enum Workload {
    Kb(kb::KbWorkload),
    Par(par::ParWorkload),
    Jm(jm::JmWorkload),
}

fn scenario(w: &Workload, slot: &Shared) -> impl Fn() + Send + Sync + 'static {
    let w = w.clone();
    let slot = slot.clone();
    move || match &w {
        Workload::Kb(k) => kb::scenario(k, &slot),
        Workload::Par(p) => par::scenario(p, &slot),
        Workload::Jm(j) => jm::scenario(j, &slot),
    }
}

#[derive(Clone, Copy, Debug, Serialize, Deserialize, PartialEq)]
pub enum Sched {
    Random,
    Pct,
}

#[derive(Serialize, Deserialize)]
pub struct ReplayFile {
    pub world: String,
    pub property: String,
    pub batch_seed: u64,
    pub workload_index: u64,
    pub scheduler: Sched,
    pub scheduler_seed: u64,
    /// shuttle's serialized schedule; replay re-executes it exactly
    pub schedule: String,
    pub violation: Violation,
    pub workload: Workload,
}

struct Report {
    out: Mutex<std::fs::File>,
}

impl Report {
    fn take_over_stdio() -> Report {
        use std::os::unix::io::FromRawFd;
        unsafe {
            let keep = libc::dup(1);
            let devnull = libc::open(b"/dev/null\0".as_ptr() as *const libc::c_char, libc::O_WRONLY);
            if std::env::var("VERIF_KEEP_STDIO").is_err() {
                libc::dup2(devnull, 1);
                libc::dup2(devnull, 2);
            }
            Report { out: Mutex::new(std::fs::File::from_raw_fd(keep)) }
        }
    }
    fn line(&self, s: &str) {
        let mut f = self.out.lock().unwrap();
        let _ = writeln!(f, "{s}");
        let _ = f.flush();
    }
}

fn panic_message(p: &Box<dyn std::any::Any + Send>) -> String {
    if let Some(s) = p.downcast_ref::<&str>() {
        s.to_string()
    } else if let Some(s) = p.downcast_ref::<String>() {
        s.clone()
    } else {
        "panic with non-string payload".to_string()
    }
}

pub struct RunResult {
    pub failed: Option<(Violation, String)>, // violation + schedule
    pub schedules_run: u64,
    pub counters: BTreeMap<String, u64>,
    pub fingerprints: Vec<u64>,
    pub nontrivial: u64,
}

/// Run `iters` schedules of one workload under a seeded scheduler. Stops at the first failure.
/// Runs on a fresh OS thread: shuttle remembers per thread at which schedule length it last
/// persisted a failure and silently skips the next failure of the same length.
fn explore(prop: &str, w: &Workload, sched: Sched, sched_seed: u64, iters: usize, scratch: &str) -> RunResult {
    let (prop, w, scratch) = (prop.to_string(), w.clone(), scratch.to_string());
    std::thread::Builder::new()
        .stack_size(16 << 20)
        .spawn(move || explore_here(&prop, &w, sched, sched_seed, iters, &scratch))
        .expect("spawn")
        .join()
        .expect("exploration thread")
}

fn explore_here(prop: &str, w: &Workload, sched: Sched, sched_seed: u64, iters: usize, scratch: &str) -> RunResult {
    let slot: Shared = Arc::new(Mutex::new(Slot::default()));
    // shuttle installs its panic hook once per process and keeps the persistence directory of the
    // first Runner: every Runner therefore uses the same directory, and a failing run finds its own
    // schedule among the files there by replaying them (see below)
    let dir = format!("{scratch}/schedules");
    let _ = std::fs::create_dir_all(&dir);
    let mut cfg = shuttle::Config::new();
    cfg.failure_persistence = shuttle::FailurePersistence::File(Some(dir.clone().into()));
    cfg.silence_warnings = true;
    cfg.stack_size = 0x40000;
    let counters: Arc<Mutex<BTreeMap<String, u64>>> = Arc::new(Mutex::new(BTreeMap::new()));
    let fps: Arc<Mutex<Vec<u64>>> = Arc::new(Mutex::new(Vec::new()));
    let nontrivial = Arc::new(AtomicU64::new(0));
    let done = Arc::new(AtomicU64::new(0));
    let body = scenario(w, &slot);
    let (slot2, counters2, fps2, nontrivial2, done2) = (slot.clone(), counters.clone(), fps.clone(), nontrivial.clone(), done.clone());
    let wrapped = move || {
        {
            let mut s = slot2.lock().unwrap();
            *s = Slot::default();
        }
        body();
        // reached only when the schedule completed without a violation
        let mut s = slot2.lock().unwrap();
        let mut c = counters2.lock().unwrap();
        for (k, v) in s.counters.iter() {
            *c.entry(k.clone()).or_insert(0) += v;
        }
        if s.nontrivial {
            nontrivial2.fetch_add(1, Ordering::SeqCst);
            fps2.lock().unwrap().push(s.fingerprint);
        }
        s.counters.clear();
        done2.fetch_add(1, Ordering::SeqCst);
    };
    let r = std::panic::catch_unwind(std::panic::AssertUnwindSafe(|| match sched {
        Sched::Random => shuttle::Runner::new(shuttle::scheduler::RandomScheduler::new_from_seed(sched_seed, iters), cfg).run(wrapped),
        Sched::Pct => shuttle::Runner::new(shuttle::scheduler::PctScheduler::new_from_seed(sched_seed, 3, iters), cfg).run(wrapped),
    }));
    let mut failed = None;
    if let Err(p) = r {
        let msg = panic_message(&p);
        if sched == Sched::Pct && msg.contains("did not exercise any concurrency") && slot.lock().unwrap().violation.is_none() {
            // PCT refuses scenarios without a second runnable task (a sequential history, a rule set
            // that stays on the sequential path): explore them with the random scheduler instead
            return explore_here(prop, w, Sched::Random, sched_seed, iters, scratch);
        }
        let schedule = String::new();
        let v = slot.lock().unwrap().violation.clone().unwrap_or_else(|| {
            let (site, returns) = match w {
                Workload::Kb(_) => ("KnowledgeBase", "kb"),
                Workload::Par(_) => ("ParallelRuleEngine::execute_parallel", "par"),
                Workload::Jm(_) => ("StreamJoinManager::process_event (concurrent callers)", "join"),
            };
            if msg.contains("deadlock") {
                Violation { property: prop.into(), clause: format!("{returns}.no-deadlock"), site: site.into(), signature: "deadlock".into(), message: format!("shuttle detected a deadlock: {msg}") }
            } else if msg.contains("exceeded max_steps") || msg.contains("max_steps") {
                Violation { property: prop.into(), clause: format!("{returns}.returns"), site: site.into(), signature: "did-not-return-within-step-bound".into(), message: msg.clone() }
            } else {
                Violation { property: prop.into(), clause: format!("{returns}.no-panic"), site: site.into(), signature: "panic".into(), message: format!("library code panicked: {msg}") }
            }
        });
        // which persisted schedule is ours? the one that reproduces this violation on this workload
        let mut mine = schedule;
        if let Ok(rd) = std::fs::read_dir(&dir) {
            let mut files: Vec<std::path::PathBuf> = rd.filter_map(|e| e.ok()).map(|e| e.path()).collect();
            files.sort();
            files.reverse();
            for f in files {
                if let Ok(text) = std::fs::read_to_string(&f) {
                    if text.trim().is_empty() {
                        continue;
                    }
                    if let Some(v2) = replay_one(w, &text) {
                        if v2.clause == v.clause || v.clause.ends_with(&v2.clause) {
                            mine = text;
                            let _ = std::fs::remove_file(&f);
                            break;
                        }
                    }
                }
            }
        }
        failed = Some((v, mine));
    }
    let c = counters.lock().unwrap().clone();
    let f = fps.lock().unwrap().clone();
    let extra = if failed_is_some(&failed) { 1 } else { 0 };
    RunResult { failed, schedules_run: done.load(Ordering::SeqCst) + extra, counters: c, fingerprints: f, nontrivial: nontrivial.load(Ordering::SeqCst) }
}

fn failed_is_some(f: &Option<(Violation, String)>) -> bool {
    f.is_some()
}

/// re-execute one persisted schedule
fn replay_one(w: &Workload, schedule: &str) -> Option<Violation> {
    if schedule.trim().is_empty() {
        // no schedule was recorded (the exploration gave up on a run that never ends): nothing to replay step by step
        return None;
    }
    let slot: Shared = Arc::new(Mutex::new(Slot::default()));
    let body = scenario(w, &slot);
    let sched = schedule.to_string();
    // same task stack size as the exploration (shuttle's default of 32 KiB is too small for code such as the GRL
    // reader: a replay that overflows its stack dies with SIGSEGV instead of reproducing anything)
    let r = std::panic::catch_unwind(std::panic::AssertUnwindSafe(|| {
        let mut cfg = shuttle::Config::new();
        cfg.silence_warnings = true;
        cfg.stack_size = 0x40000;
        cfg.failure_persistence = shuttle::FailurePersistence::None;
        shuttle::Runner::new(shuttle::scheduler::ReplayScheduler::new_from_encoded(&sched), cfg).run(body);
    }));
    match r {
        Ok(()) => None,
        Err(p) => {
            let msg = panic_message(&p);
            if slot.lock().unwrap().violation.is_none() && msg.contains("scheduled task is not runnable") {
                // the recorded schedule does not fit this code (it was recorded against another tree): the
                // scheduler cannot follow it — nothing was reproduced, and nothing is claimed
                return None;
            }
            Some(slot.lock().unwrap().violation.clone().unwrap_or(Violation {
                property: String::new(),
                clause: if msg.contains("deadlock") { "no-deadlock".into() } else { "no-panic".into() },
                site: String::new(),
                signature: if msg.contains("deadlock") { "deadlock".into() } else { "panic".into() },
                message: msg,
            }))
        }
    }
}

fn generate(prop: &str, tier_thorough: bool, rng: &mut Rng) -> Workload {
    match prop {
        "C15" => Workload::Kb(kb::generate(rng, tier_thorough)),
        "C14" => Workload::Jm(jm::generate(rng, tier_thorough)),
        _ => Workload::Par(par::generate(rng, tier_thorough)),
    }
}

fn shrink(w: &Workload) -> Vec<Workload> {
    match w {
        Workload::Kb(k) => kb::shrink(k).into_iter().map(Workload::Kb).collect(),
        Workload::Par(p) => par::shrink(p).into_iter().map(Workload::Par).collect(),
        Workload::Jm(j) => jm::shrink(j).into_iter().map(Workload::Jm).collect(),
    }
}

fn main() {
    let args: Vec<String> = std::env::args().skip(1).collect();
    let report = Report::take_over_stdio();
    if std::env::var("VERIF_KEEP_STDIO").is_err() {
        std::panic::set_hook(Box::new(|_| {}));
    }
    let code = real_main(&args, &report);
    std::process::exit(code);
}

fn real_main(args: &[String], report: &Report) -> i32 {
    let root = std::env::var("VERIF_ROOT").unwrap_or_else(|_| "/verif".to_string());
    let mut thorough = matches!(std::env::var("VERIF_TIER").ok().as_deref(), Some("thorough"));
    let mut seed = std::env::var("VERIF_SEED").ok().and_then(|s| s.trim().parse::<u64>().ok()).unwrap_or(DEFAULT_SEED);
    let mut workloads: Option<u64> = None;
    let mut schedules: Option<usize> = None;
    let mut evidence: Option<String> = None;
    let mut replay: Option<String> = None;
    let mut confirm = false;
    let mut workers = std::thread::available_parallelism().map(|n| n.get()).unwrap_or(8).min(16);
    let mut pos: Vec<String> = Vec::new();
    let mut i = 0;
    while i < args.len() {
        let a = args[i].as_str();
        let mut val = || {
            i += 1;
            args.get(i).cloned().unwrap_or_default()
        };
        match a {
            "--tier" => thorough = val() == "thorough",
            "--seed" => seed = val().parse().unwrap_or(DEFAULT_SEED),
            "--workloads" | "--runs" => workloads = val().parse().ok(),
            "--schedules" => schedules = val().parse().ok(),
            "--evidence" => evidence = Some(val()),
            "--replay" => replay = Some(val()),
            "--workers" => workers = val().parse().unwrap_or(workers).max(1),
            "--confirm" => confirm = true,
            _ => pos.push(a.to_string()),
        }
        i += 1;
    }

    if let Some(path) = replay {
        let text = match std::fs::read_to_string(&path) {
            Ok(t) => t,
            Err(e) => {
                report.line(&format!("HARNESS-ERROR: cannot read {path}: {e}"));
                return 2;
            }
        };
        let rf: ReplayFile = match serde_json::from_str(&text) {
            Ok(r) => r,
            Err(e) => {
                report.line(&format!("HARNESS-ERROR: {path} is not a replay file: {e}"));
                return 2;
            }
        };
        // First the recorded schedule, step by step. A violation that does not depend on the schedule at all — a
        // call that never returns — has no schedule of finite length worth recording (the exploration gave up after
        // a million steps); for it, and only when the exact replay shows nothing, the workload is explored again
        // under the scheduler and seed recorded in the file: still a pure function of the file and the code.
        let exact = replay_one(&rf.workload, &rf.schedule);
        let replayed = match exact {
            Some(v) => Some(v),
            None if rf.violation.signature == "did-not-return-within-step-bound" || rf.violation.signature == "deadlock" => {
                let scratch = format!("/dev/shm/rre-verif-replay-{}", std::process::id());
                let r = explore(&rf.property, &rf.workload, rf.scheduler, rf.scheduler_seed, 40, &scratch);
                let _ = std::fs::remove_dir_all(&scratch);
                r.failed.map(|(v, _)| v)
            }
            None => None,
        };
        return match replayed {
            Some(v) => {
                if confirm {
                    return if v.clause == rf.violation.clause || rf.violation.clause.ends_with(&v.clause) { 1 } else { 3 };
                }
                report.line(&format!("replay: [{}] {} :: {}", v.clause, v.signature, v.message));
                report.line(&format!("VIOLATION property={} replay=(this file)", rf.property));
                1
            }
            None => {
                if !confirm {
                    report.line("replay: the schedule ran to completion, no clause failed");
                }
                0
            }
        };
    }

    if pos.first().map(|s| s.as_str()) != Some("check") || pos.len() < 2 {
        report.line("usage: shrun check C15|C19|C14 [--tier quick|thorough] | shrun --replay FILE");
        return 2;
    }
    let prop = pos[1].clone();
    let world = match prop.as_str() {
        "C15" => "kb",
        "C14" => "jm",
        _ => "par",
    };
    let n_workloads = workloads.unwrap_or(match (prop.as_str(), thorough) {
        ("C15", false) => 40_000,
        ("C15", true) => 400_000,
        ("C14", false) => 20_000,
        ("C14", true) => 300_000,
        (_, false) => 15_000,
        (_, true) => 200_000,
    });
    let n_sched = schedules.unwrap_or(match (prop.as_str(), thorough) {
        ("C15", false) => 60,
        ("C15", true) => 200,
        ("C14", false) => 40,
        ("C14", true) => 100,
        (_, false) => 30,
        (_, true) => 100,
    });
    let tier = if thorough { "thorough" } else { "quick" };
    report.line(&format!("shuttle world={world} property={prop} tier={tier} VERIF_SEED={seed} workloads={n_workloads} schedules/workload={n_sched} workers={workers}"));
    let scratch = format!("{}/rre-verif-sh-{}", std::env::var("VERIF_SCRATCH").unwrap_or_else(|_| "/dev/shm".into()), std::process::id());
    let _ = std::fs::create_dir_all(&scratch);
    let started = Instant::now();
    let max_secs: u64 = if thorough { 1500 } else { 150 };
    let next = AtomicU64::new(0);
    let stop_at = AtomicU64::new(n_workloads);
    let timed_out = AtomicBool::new(false);
    struct Agg {
        counters: BTreeMap<String, u64>,
        fps: HashSet<u64>,
        schedules: u64,
        workloads: u64,
        nontrivial: u64,
        samples: Vec<(u64, Json)>,
        first: Option<(u64, Violation, String, Workload, Sched, u64)>,
    }
    let aggs: Vec<Agg> = std::thread::scope(|sc| {
        let mut hs = Vec::new();
        for _ in 0..workers {
            let (next, stop_at, timed_out, prop, scratch) = (&next, &stop_at, &timed_out, prop.clone(), scratch.clone());
            hs.push(sc.spawn(move || {
                let mut a = Agg { counters: BTreeMap::new(), fps: HashSet::new(), schedules: 0, workloads: 0, nontrivial: 0, samples: Vec::new(), first: None };
                loop {
                    let i = next.fetch_add(1, Ordering::SeqCst);
                    if i >= stop_at.load(Ordering::SeqCst) {
                        break;
                    }
                    if started.elapsed().as_secs() >= max_secs {
                        timed_out.store(true, Ordering::SeqCst);
                        stop_at.fetch_min(i, Ordering::SeqCst);
                        break;
                    }
                    let ws = rng::run_seed(seed, world, i);
                    let mut r = Rng::new(ws);
                    let w = generate(&prop, thorough, &mut r);
                    let sched_seed = r.next_u64();
                    let sched = if i % 2 == 1 { Sched::Pct } else { Sched::Random };
                    let res = explore(&prop, &w, sched, sched_seed, n_sched, &scratch);
                    a.workloads += 1;
                    a.schedules += res.schedules_run;
                    a.nontrivial += res.nontrivial;
                    for (k, v) in res.counters {
                        *a.counters.entry(k).or_insert(0) += v;
                    }
                    let had = !res.fingerprints.is_empty();
                    for f in res.fingerprints {
                        if a.fps.len() < 4_000_000 {
                            a.fps.insert(f ^ ws);
                        }
                    }
                    if had && a.samples.len() < 3 {
                        a.samples.push((i, serde_json::to_value(&w).unwrap_or(Json::Null)));
                    }
                    if let Some((v, schedule)) = res.failed {
                        stop_at.fetch_min(i, Ordering::SeqCst);
                        if a.first.as_ref().map_or(true, |f| i < f.0) {
                            a.first = Some((i, v, schedule, w, sched, sched_seed));
                        }
                        break;
                    }
                }
                a
            }));
        }
        hs.into_iter().map(|h| h.join().expect("worker")).collect()
    });
    let mut counters: BTreeMap<String, u64> = BTreeMap::new();
    let mut fps: HashSet<u64> = HashSet::new();
    let (mut total_sched, mut total_w, mut nontrivial) = (0u64, 0u64, 0u64);
    let mut samples: Vec<(u64, Json)> = Vec::new();
    let mut first: Option<(u64, Violation, String, Workload, Sched, u64)> = None;
    for a in aggs {
        for (k, v) in a.counters {
            *counters.entry(k).or_insert(0) += v;
        }
        fps.extend(a.fps);
        total_sched += a.schedules;
        total_w += a.workloads;
        nontrivial += a.nontrivial;
        samples.extend(a.samples);
        if let Some(f) = a.first {
            if first.as_ref().map_or(true, |g| f.0 < g.0) {
                first = Some(f);
            }
        }
    }
    samples.sort_by_key(|s| s.0);
    samples.truncate(3);
    let wall = started.elapsed().as_secs_f64();
    let mut exit = 0;
    let mut violations = 0;
    let mut replay_path: Option<String> = None;
    if let Some((idx, v, schedule, w, sched, sched_seed)) = first {
        violations = 1;
        report.line(&format!("violation at workload {idx}: [{}] {} @{} :: {}", v.clause, v.signature, v.site, v.message));
        // minimise the workload: a candidate is kept if some schedule (bounded search under the same
        // scheduler seed) fails the same clause; the surviving schedule is kept verbatim
        let (mut cur_w, mut cur_v, mut cur_s) = (w, v, schedule);
        let mut tried = 0;
        'outer: loop {
            if tried > 400 || started.elapsed().as_secs() > max_secs + 120 {
                break;
            }
            for cand in shrink(&cur_w) {
                tried += 1;
                let res = explore(&prop, &cand, sched, sched_seed, 2000, &scratch);
                if let Some((v2, s2)) = res.failed {
                    if v2.same_class(&cur_v) {
                        cur_w = cand;
                        cur_v = v2;
                        cur_s = s2;
                        continue 'outer;
                    }
                }
                if tried > 400 {
                    break 'outer;
                }
            }
            break;
        }
        report.line(&format!("minimised after {tried} candidate workloads: [{}] {}", cur_v.clause, cur_v.message));
        let dir = format!("{root}/replays");
        let _ = std::fs::create_dir_all(&dir);
        let path = format!("{dir}/{prop}-{}.json", rng::run_seed(seed, world, idx));
        let rf = ReplayFile { world: world.into(), property: prop.clone(), batch_seed: seed, workload_index: idx, scheduler: sched, scheduler_seed: sched_seed, schedule: cur_s, violation: cur_v.clone(), workload: cur_w };
        if std::fs::write(&path, serde_json::to_string_pretty(&rf).unwrap()).is_err() {
            report.line("HARNESS-ERROR: cannot write the replay file");
            return 2;
        }
        // fresh-process confirmation
        let ok = std::env::current_exe().ok().and_then(|exe| std::process::Command::new(exe).arg("--replay").arg(&path).arg("--confirm").output().ok()).map(|o| o.status.code() == Some(1)).unwrap_or(false);
        if ok {
            report.line(&format!("VIOLATION property={prop} replay={path}"));
            exit = 1;
            replay_path = Some(path);
        } else {
            report.line(&format!("HARNESS-ERROR: replay {path} did not reproduce [{}] in a fresh process", cur_v.clause));
            exit = 2;
        }
    }
    let _ = std::fs::remove_dir_all(&scratch);
    let ev_path = evidence.unwrap_or_else(|| format!("{root}/evidence/{prop}.json"));
    let per_hour = if wall > 0.0 { (total_sched as f64 / wall * 3600.0) as u64 } else { 0 };
    let (rule, real, stub, assumptions): (&str, Vec<&str>, Vec<&str>, Vec<&str>) = match prop.as_str() {
        "C15" => kb::describe(),
        "C14" => jm::describe(),
        _ => par::describe(),
    };
    let ev = json!({
        "property_id": prop,
        "tier": tier,
        "seed": seed,
        "level": "exploration",
        "coverage": {
            "evaluations": total_sched,
            "workloads": total_w,
            "schedules_per_workload": n_sched,
            "distinct_nontrivial": fps.len(),
            "nontrivial_runs": nontrivial,
            "rule": rule,
            "samples": samples.iter().map(|(i, w)| json!({"workload_index": i, "workload": w})).collect::<Vec<_>>(),
            "runs_per_hour": per_hour,
            "seeds_per_hour": if wall > 0.0 { (total_w as f64 / wall * 3600.0) as u64 } else { 0 },
            "simulated_ms": 0,
            "faults_fired": counters.iter().filter(|(k, _)| k.starts_with("fault.")).collect::<BTreeMap<_, _>>(),
            "probes": counters.iter().filter(|(k, _)| !k.starts_with("fault.")).collect::<BTreeMap<_, _>>(),
            "components": {"real": real, "stub": stub},
            "schedulers": "shuttle RandomScheduler (even workloads) and PctScheduler depth 3 (odd workloads), seeded",
            "stopped_by_wall_clock_cap": timed_out.load(Ordering::SeqCst),
            "replay": replay_path,
        },
        "assumptions": assumptions,
        "wall_s": wall,
        "violations": violations,
    });
    if let Some(dir) = std::path::Path::new(&ev_path).parent() {
        let _ = std::fs::create_dir_all(dir);
    }
    if std::fs::write(&ev_path, serde_json::to_string_pretty(&ev).unwrap()).is_err() {
        report.line("HARNESS-ERROR: cannot write evidence");
        return 2;
    }
    report.line(&format!("done: workloads={total_w} schedules={total_sched} nontrivial={nontrivial} distinct={} wall={wall:.1}s", fps.len()));
    exit
}
