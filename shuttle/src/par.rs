//! Scenario `par` (C19): `ParallelRuleEngine::execute_parallel` — one `thread::spawn` per chunk,
//! a shared `Mutex<Vec<_>>` of results, `Facts` behind `RwLock`s — under shuttle's schedulers.
//! Reference: the same engine with parallelism off on a deep copy of the initial facts, plus the
//! harness's own typed-core evaluation when the workers are confirmed not to write facts.

use crate::rng::Rng;
use crate::{count, Shared, Violation};
use rust_rule_engine::engine::facts::Facts;
use rust_rule_engine::engine::knowledge_base::KnowledgeBase;
use rust_rule_engine::engine::parallel::{ParallelConfig, ParallelRuleEngine};
use rust_rule_engine::engine::rule::{Condition, ConditionGroup, Rule};
use rust_rule_engine::types::{ActionType, Operator, Value};
use serde::{Deserialize, Serialize};
use std::collections::BTreeMap;

#[derive(Clone, Debug, Serialize, Deserialize, PartialEq)]
pub enum PCond {
    /// `kind`: how the literal is typed in the rule — 0 integer, 1 float (`lit as f64`), 2 string (`lit.to_string()`)
    Atom {
        field: u8,
        op: u8,
        lit: i64,
        #[serde(default)]
        kind: u8,
    },
    /// harness-registered pure custom function: isPos(field) == true/false
    Func { field: u8, want: bool },
    And(Box<PCond>, Box<PCond>),
    Or(Box<PCond>, Box<PCond>),
    Not(Box<PCond>),
}

#[derive(Clone, Debug, Serialize, Deserialize, PartialEq)]
pub struct PRule {
    pub salience: i32,
    pub enabled: bool,
    pub cond: PCond,
    pub set: Option<(u8, i64)>,
    /// a Custom action calling a harness-registered function that WRITES facts: 0 = remove F.d,
    /// 1 = set F.d to 7, 2 = set F.e (a key nobody reads) to 7. Generated only on the highest salience level, one kind per workload, and
    /// F.d is read only by rules on lower levels — so the outcome is the same on every schedule
    #[serde(default)]
    pub custom: Option<u8>,
    /// date window: 0 none, 1 expired in 2001, 2 effective from 2999, 3 effective 2001 and expiring 2999 (open
    /// now). Whether the parallel engine looks at date windows at all the property does not say — only that it
    /// does what evaluating the rules one by one does
    #[serde(default)]
    pub dates: u8,
}

#[derive(Clone, Debug, Serialize, Deserialize)]
pub struct ParWorkload {
    pub rules: Vec<PRule>,
    pub facts: [i64; 4],
    pub max_threads: usize,
    pub min_rules_per_thread: usize,
    pub enabled: bool,
    /// configuration swarm: (dependency_analysis, debug_mode argument of execute_parallel)
    #[serde(default)]
    pub cfg: (bool, bool),
    /// the four fields are members of ONE object fact `F` (read through nested paths) instead of four flat
    /// keys `F.a` .. `F.d`; fact-writing actions then use set_nested on a member nobody reads
    #[serde(default)]
    pub nested: bool,
    /// the engine object is not new: before the judged call it has run another knowledge base of the same
    /// name, built with the same number of add_rule calls (so: the same version number), whose rules carry the
    /// same names but the NEGATED conditions — on facts of its own (1), or twice (2)
    #[serde(default)]
    pub warm: u8,
}

fn fname(f: u8) -> String {
    format!("F.{}", ["a", "b", "c", "d"][f as usize % 4])
}

fn to_group(c: &PCond) -> ConditionGroup {
    match c {
        PCond::Atom { field, op, lit, kind } => {
            let o = match op % 6 {
                0 => Operator::Equal,
                1 => Operator::NotEqual,
                2 => Operator::LessThan,
                3 => Operator::LessThanOrEqual,
                4 => Operator::GreaterThan,
                _ => Operator::GreaterThanOrEqual,
            };
            let v = match kind % 3 {
                0 => Value::Integer(*lit),
                1 => Value::Number(*lit as f64),
                _ => Value::String(lit.to_string()),
            };
            ConditionGroup::single(Condition::new(fname(*field), o, v))
        }
        PCond::Func { field, want } => ConditionGroup::single(Condition::with_function("isPos".to_string(), vec![fname(*field)], Operator::Equal, Value::Boolean(*want))),
        PCond::And(a, b) => ConditionGroup::and(to_group(a), to_group(b)),
        PCond::Or(a, b) => ConditionGroup::or(to_group(a), to_group(b)),
        PCond::Not(a) => ConditionGroup::not(to_group(a)),
    }
}

fn eval(c: &PCond, f: &[i64; 4]) -> bool {
    match c {
        PCond::Atom { field, op, lit, .. } => {
            let v = f[*field as usize % 4];
            match op % 6 {
                0 => v == *lit,
                1 => v != *lit,
                2 => v < *lit,
                3 => v <= *lit,
                4 => v > *lit,
                _ => v >= *lit,
            }
        }
        PCond::Func { field, want } => (f[*field as usize % 4] > 0) == *want,
        PCond::And(a, b) => eval(a, f) && eval(b, f),
        PCond::Or(a, b) => eval(a, f) || eval(b, f),
        PCond::Not(a) => !eval(a, f),
    }
}

fn has_func(c: &PCond) -> bool {
    match c {
        PCond::Func { .. } => true,
        PCond::Atom { .. } => false,
        PCond::And(a, b) | PCond::Or(a, b) => has_func(a) || has_func(b),
        PCond::Not(a) => has_func(a),
    }
}

/// does the condition compare an integer field with a literal of another type? (outside the typed
/// core: the harness's own evaluation does not judge such a rule; the sequential path still does)
fn has_foreign_literal(c: &PCond) -> bool {
    match c {
        PCond::Func { .. } => false,
        PCond::Atom { kind, .. } => kind % 3 != 0,
        PCond::And(a, b) | PCond::Or(a, b) => has_foreign_literal(a) || has_foreign_literal(b),
        PCond::Not(a) => has_foreign_literal(a),
    }
}

fn build_kb(w: &ParWorkload) -> KnowledgeBase {
    build_kb_with(w, false)
}

fn build_kb_with(w: &ParWorkload, negated: bool) -> KnowledgeBase {
    let kb = KnowledgeBase::new("par");
    for (i, r) in w.rules.iter().enumerate() {
        let mut actions = Vec::new();
        if let Some((f, v)) = r.set {
            actions.push(ActionType::Set { field: fname(f), value: Value::Integer(v) });
        }
        if let Some(k) = r.custom {
            actions.push(ActionType::Custom { action_type: ["dropD", "setD7", "setE7", "nestE7", "failE"][k as usize % 5].to_string(), params: std::collections::HashMap::new() });
        }
        let cond = if negated { ConditionGroup::not(to_group(&r.cond)) } else { to_group(&r.cond) };
        let mut rule = Rule::new(format!("R{i}"), cond, actions).with_salience(r.salience);
        if r.dates % 4 == 1 || r.dates % 4 == 3 {
            rule = if r.dates % 4 == 1 { rule.with_date_expires_str("2001-01-01T00:00:00Z").unwrap() } else { rule.with_date_effective_str("2001-01-01T00:00:00Z").unwrap() };
        }
        if r.dates % 4 == 2 || r.dates % 4 == 3 {
            rule = if r.dates % 4 == 2 { rule.with_date_effective_str("2999-01-01T00:00:00Z").unwrap() } else { rule.with_date_expires_str("2999-01-01T00:00:00Z").unwrap() };
        }
        rule.enabled = r.enabled;
        let _ = kb.add_rule(rule);
    }
    kb
}

fn build_facts(w: &ParWorkload) -> Facts {
    let facts = Facts::new();
    if w.nested {
        let mut o = std::collections::HashMap::new();
        for f in 0..4usize {
            o.insert(["a", "b", "c", "d"][f].to_string(), Value::Integer(w.facts[f]));
        }
        facts.set("F", Value::Object(o));
    } else {
        for f in 0..4u8 {
            facts.set(&fname(f), Value::Integer(w.facts[f as usize]));
        }
    }
    facts
}

fn engine(w: &ParWorkload, enabled: bool) -> ParallelRuleEngine {
    let mut e = ParallelRuleEngine::new(ParallelConfig { enabled, max_threads: w.max_threads.max(1), min_rules_per_thread: w.min_rules_per_thread.max(1), dependency_analysis: w.cfg.0 });
    e.register_function("isPos", |args: &[Value], _f: &Facts| {
        Ok(Value::Boolean(match args.first() {
            Some(Value::Integer(i)) => *i > 0,
            Some(Value::Number(n)) => *n > 0.0,
            _ => false,
        }))
    });
    e.register_function("dropD", |_args: &[Value], f: &Facts| {
        f.remove("F.d");
        Ok(Value::Boolean(true))
    });
    e.register_function("setD7", |_args: &[Value], f: &Facts| {
        f.set("F.d", Value::Integer(7));
        Ok(Value::Boolean(true))
    });
    // nested facts: writes a member of the object F that no rule reads — on any level, beside any reader
    e.register_function("nestE7", |_args: &[Value], f: &Facts| {
        let _ = f.set_nested("F.e", Value::Integer(7));
        Ok(Value::Boolean(true))
    });
    // an action whose function fails (and writes nothing): whatever the engine makes of the failing rule
    // itself, the verdicts on the other rules of its level, chunk and worker must not change
    e.register_function("failE", |_args: &[Value], _f: &Facts| Err(rust_rule_engine::RuleEngineError::EvaluationError { message: "failE always fails".to_string() }));
    // writes a key of its own that no rule reads: may run beside either of the other two on any schedule
    e.register_function("setE7", |_args: &[Value], f: &Facts| {
        f.set("F.e", Value::Integer(7));
        Ok(Value::Boolean(true))
    });
    e
}

fn fail(slot: &Shared, clause: &str, sig: &str, msg: String) -> ! {
    slot.lock().unwrap().violation = Some(Violation { property: "C19".into(), clause: clause.into(), site: "ParallelRuleEngine::execute_parallel".into(), signature: sig.into(), message: msg.clone() });
    panic!("VIOLATION {clause}: {msg}");
}

pub fn scenario(w: &ParWorkload, slot: &Shared) {
    // reference: the engine the property's anchor names, parallelism off, on its own copy of the facts
    let ref_kb = build_kb(w);
    let ref_facts = build_facts(w);
    let reference = match engine(w, false).execute_parallel(&ref_kb, &ref_facts, false) {
        Ok(r) => r,
        Err(e) => fail(slot, "par.returns", "sequential-reference-failed", format!("the sequential path returned an error: {e}")),
    };
    let kb = build_kb(w);
    let facts = build_facts(w);
    let before = facts.get_all_facts();
    let eng = engine(w, w.enabled);
    for _ in 0..w.warm.min(2) {
        let other = build_kb_with(w, true);
        let other_facts = build_facts(w);
        let _ = eng.execute_parallel(&other, &other_facts, false);
        count(slot, "probe.engine_object_ran_another_knowledge_base_first");
    }
    let result = match eng.execute_parallel(&kb, &facts, w.cfg.1) {
        Ok(r) => r,
        Err(e) => fail(slot, "par.returns", "execute-parallel-returned-error", format!("execute_parallel returned an error: {e}")),
    };
    let after = facts.get_all_facts();
    let fired_map = |r: &rust_rule_engine::engine::parallel::ParallelExecutionResult| -> Vec<(String, bool)> {
        let mut v: Vec<(String, bool)> = r.execution_contexts.iter().map(|c| (c.rule.name.clone(), c.fired)).collect();
        v.sort();
        v
    };
    let got = fired_map(&result);
    let want = fired_map(&reference);
    let enabled_rules = w.rules.iter().filter(|r| r.enabled).count();
    // par.counts
    let mut seen: BTreeMap<String, usize> = BTreeMap::new();
    for (n, _) in &got {
        *seen.entry(n.clone()).or_insert(0) += 1;
    }
    if let Some((n, k)) = seen.iter().find(|(_, k)| **k != 1) {
        fail(slot, "par.counts", "rule-reported-more-than-once", format!("rule {n} appears {k} times in the execution contexts"));
    }
    // (a rule outside its date window may or may not be reported — the comparison with the sequential path
    // below decides; every other enabled rule must be)
    let in_window = w.rules.iter().filter(|r| r.enabled && r.dates % 4 != 1 && r.dates % 4 != 2).count();
    if got.len() < in_window || got.len() > enabled_rules || result.total_rules_evaluated != got.len() {
        let sig = if got.len() < in_window { "enabled-rule-missing-from-result" } else { "more-results-than-enabled-rules" };
        fail(slot, "par.counts", sig, format!("{} enabled rules ({} of them not outside a date window), {} execution contexts, total_rules_evaluated {}", enabled_rules, in_window, got.len(), result.total_rules_evaluated));
    }
    let fired_n = got.iter().filter(|(_, f)| *f).count();
    if result.total_rules_fired != fired_n {
        fail(slot, "par.counts", "fired-count-differs-from-fired-set", format!("total_rules_fired {} but {} contexts are marked fired", result.total_rules_fired, fired_n));
    }
    // par.same-fired
    if got != want {
        let mut diff: Vec<String> = got.iter().zip(&want).filter(|(a, b)| a != b).map(|(a, b)| format!("{}: parallel {} / sequential {}", a.0, a.1, b.1)).collect();
        if got.len() != want.len() {
            diff.push(format!("{} rules reported by the parallel path, {} by the sequential one", got.len(), want.len()));
        }
        fail(slot, "par.same-fired", "verdicts-differ-from-sequential", format!("max_threads {} min_rules_per_thread {}: {diff:?}", w.max_threads, w.min_rules_per_thread));
    }
    if reference.total_rules_evaluated != result.total_rules_evaluated || reference.total_rules_fired != result.total_rules_fired {
        fail(slot, "par.counts", "counts-differ-from-sequential", format!("parallel evaluated/fired {}/{} vs sequential {}/{}", result.total_rules_evaluated, result.total_rules_fired, reference.total_rules_evaluated, reference.total_rules_fired));
    }
    // second, independent reference — only valid while the workers do not write facts
    if after == before {
        count(slot, "probe.workers_left_facts_unchanged");
        // (a rule whose own action fails is left to the comparison with the sequential path: the property
        // does not say whether such a rule counts as fired)
        for (i, r) in w.rules.iter().enumerate().filter(|(_, r)| r.enabled && !has_foreign_literal(&r.cond) && r.custom != Some(4) && r.dates % 4 != 1 && r.dates % 4 != 2) {
            let mine = eval(&r.cond, &w.facts);
            let theirs = got.iter().find(|(n, _)| *n == format!("R{i}")).map(|(_, f)| *f);
            if theirs != Some(mine) {
                fail(slot, "par.same-fired", "verdict-differs-from-typed-core-evaluation", format!("R{i} {:?} on facts {:?}: engine says {:?}, typed-core evaluation says {mine}", r.cond, w.facts, theirs));
            }
        }
    } else {
        count(slot, "probe.workers_wrote_facts");
        let bottom = w.rules.iter().filter(|r| r.enabled).map(|r| r.salience).min().unwrap_or(0);
        if w.rules.iter().any(|r| r.enabled && r.salience == bottom && matches!(r.custom, Some(0) | Some(1))) && w.rules.iter().any(|r| r.enabled && r.salience > bottom) {
            count(slot, "probe.writers_on_the_lowest_level_below_readers");
        }
    }
    let mut s = slot.lock().unwrap();
    let levels: std::collections::BTreeSet<i32> = w.rules.iter().filter(|r| r.enabled).map(|r| r.salience).collect();
    let parallel_level = w.enabled && levels.iter().any(|l| {
        let n = w.rules.iter().filter(|r| r.enabled && r.salience == *l).count();
        n >= 2 && n >= w.min_rules_per_thread.max(1)
    });
    s.nontrivial = parallel_level && w.max_threads >= 2;
    s.fingerprint = 1; // one fingerprint per workload: the observable does not expose the interleaving
    drop(s);
    if parallel_level {
        count(slot, "probe.salience_level_run_by_worker_threads");
    }
    if w.rules.iter().any(|r| has_func(&r.cond)) {
        count(slot, "probe.custom_function_condition");
    }
    if w.rules.iter().any(|r| has_foreign_literal(&r.cond)) {
        count(slot, "probe.literal_of_another_type_than_the_field");
    }
    if w.rules.iter().any(|r| r.custom == Some(4) && r.enabled) {
        count(slot, "probe.action_whose_function_returns_an_error");
    }
    if w.rules.iter().any(|r| r.custom.is_some() && r.custom != Some(4) && r.enabled) {
        count(slot, if w.nested { "probe.action_that_writes_a_member_of_the_object_fact" } else { "probe.action_that_writes_a_fact_on_the_top_level" });
    }
    if w.rules.iter().any(|r| r.enabled && (r.dates % 4 == 1 || r.dates % 4 == 2)) {
        count(slot, "probe.rule_outside_its_date_window");
    }
    if !w.enabled {
        count(slot, "probe.parallelism_off");
    }
}

pub fn generate(rng: &mut Rng, _thorough: bool) -> ParWorkload {
    fn gen_cond(rng: &mut Rng, depth: usize) -> PCond {
        if depth >= 2 || rng.chance(1, 2) {
            if rng.chance(1, 5) {
                PCond::Func { field: rng.below(4) as u8, want: rng.chance(1, 2) }
            } else {
                PCond::Atom { field: rng.below(4) as u8, op: rng.below(6) as u8, lit: rng.range(-1, 3), kind: if rng.chance(1, 8) { 1 + rng.below(2) as u8 } else { 0 } }
            }
        } else {
            match rng.usize(5) {
                0 | 1 => PCond::And(Box::new(gen_cond(rng, depth + 1)), Box::new(gen_cond(rng, depth + 1))),
                2 | 3 => PCond::Or(Box::new(gen_cond(rng, depth + 1)), Box::new(gen_cond(rng, depth + 1))),
                _ => PCond::Not(Box::new(gen_cond(rng, depth + 1))),
            }
        }
    }
    let n = 1 + rng.usize(24);
    let sal = [0i32, 0, 0, 5, -2];
    let mut rules: Vec<PRule> = Vec::new();
    for _ in 0..n {
        let mut r = PRule { salience: *rng.pick(&sal), enabled: !rng.chance(1, 8), cond: gen_cond(rng, 0), set: if rng.chance(1, 3) { Some((rng.below(4) as u8, rng.range(-1, 3))) } else { None }, custom: None, dates: 0 };
        // 1 in 6: a near-twin of an earlier rule on the same level — the same guard with the literal typed
        // differently, or the same guard with the neighbouring literal — so that anything that identifies
        // "the same condition" too coarsely has something to confuse
        if !rules.is_empty() && rng.chance(1, 6) {
            let e = rules[rng.usize(rules.len())].clone();
            if let PCond::Atom { field, op, lit, kind } = e.cond {
                r.salience = e.salience;
                r.cond = if rng.chance(2, 3) { PCond::Atom { field, op, lit, kind: (kind + 1 + rng.below(2) as u8) % 3 } } else { PCond::Atom { field, op, lit: lit + 1, kind } };
            }
        }
        rules.push(r);
    }
    // one workload in five: rules of the highest salience level carry an action that writes a fact
    // (removes F.d, or sets it) through a registered function; those rules do not read F.d themselves
    if rng.chance(1, 5) {
        fn avoid_d(c: &mut PCond) {
            match c {
                PCond::Atom { field, .. } | PCond::Func { field, .. } => {
                    if *field % 4 == 3 {
                        *field = 0;
                    }
                }
                PCond::And(a, b) | PCond::Or(a, b) => {
                    avoid_d(a);
                    avoid_d(b);
                }
                PCond::Not(a) => avoid_d(a),
            }
        }
        let top = rules.iter().filter(|r| r.enabled).map(|r| r.salience).max().unwrap_or(0);
        let kind = rng.below(2) as u8;
        // half of these workloads mix in a second writer on another key (F.e, read by nobody): two different
        // kinds of write — set and remove, or two sets — then overlap in time without making the outcome
        // depend on the schedule
        let second_writer = rng.chance(1, 2);
        for r in rules.iter_mut().filter(|r| r.salience == top) {
            avoid_d(&mut r.cond);
            if rng.chance(1, 2) {
                r.custom = Some(if second_writer && rng.chance(1, 2) { 2 } else { kind });
            }
        }
    } else if rng.chance(1, 5) {
        // the other way round (one workload in six or so): the writers sit on the LOWEST level and do not read
        // F.d; rules of every higher level may read it and see the initial value on every schedule, because a
        // level has been joined before the next one starts
        fn avoid_d(c: &mut PCond) {
            match c {
                PCond::Atom { field, .. } | PCond::Func { field, .. } => {
                    if *field % 4 == 3 {
                        *field = 0;
                    }
                }
                PCond::And(a, b) | PCond::Or(a, b) => {
                    avoid_d(a);
                    avoid_d(b);
                }
                PCond::Not(a) => avoid_d(a),
            }
        }
        fn read_d(c: &mut PCond) {
            if let PCond::Atom { field, .. } | PCond::Func { field, .. } = c {
                *field = 3;
            }
        }
        let bottom = rules.iter().filter(|r| r.enabled).map(|r| r.salience).min().unwrap_or(0);
        let kind = rng.below(2) as u8;
        for r in rules.iter_mut() {
            if r.salience == bottom {
                avoid_d(&mut r.cond);
                r.custom = Some(kind);
            } else if rng.chance(1, 2) {
                read_d(&mut r.cond);
            }
        }
    }
    // one workload in four keeps the fields in one object fact; there the only writer is `nestE7`
    // (set_nested on a member nobody reads), which may sit on ANY level because no verdict depends on it
    let nested = rng.chance(1, 4);
    if nested {
        for r in rules.iter_mut() {
            r.custom = if rng.chance(1, 4) { Some(3) } else { None };
        }
    }
    // one workload in six: a quarter of the rules without another custom action get one whose registered
    // function returns an error (it writes nothing, so it may sit on any level)
    if rng.chance(1, 6) {
        for r in rules.iter_mut() {
            if r.custom.is_none() && rng.chance(1, 4) {
                r.custom = Some(4);
            }
        }
    }
    // one workload in eight: a third of the rules carry a date window (expired, not yet effective, or open now)
    if rng.chance(1, 8) {
        for r in rules.iter_mut() {
            if rng.chance(1, 3) {
                r.dates = 1 + rng.below(3) as u8;
            }
        }
    }
    ParWorkload {
        rules,
        facts: [rng.range(-1, 3), rng.range(-1, 3), rng.range(-1, 3), rng.range(-1, 3)],
        max_threads: 1 + rng.usize(16),
        min_rules_per_thread: 1 + rng.usize(4),
        enabled: !rng.chance(1, 6),
        cfg: (rng.chance(1, 2), rng.chance(1, 10)),
        nested,
        warm: *rng.pick(&[0u8, 0, 0, 0, 0, 1, 1, 2]),
    }
}

pub fn shrink(w: &ParWorkload) -> Vec<ParWorkload> {
    let mut out = Vec::new();
    if w.warm > 0 {
        let mut c = w.clone();
        c.warm -= 1;
        out.push(c);
    }
    let n = w.rules.len();
    if n > 1 {
        let mut c = w.clone();
        c.rules.truncate(n / 2);
        out.push(c);
        let mut c = w.clone();
        c.rules.drain(..n / 2);
        out.push(c);
        for i in 0..n {
            let mut c = w.clone();
            c.rules.remove(i);
            out.push(c);
        }
    }
    for i in 0..n {
        let simple = PCond::Atom { field: 0, op: 5, lit: -5, kind: 0 };
        if w.rules[i].cond != simple {
            let mut c = w.clone();
            c.rules[i].cond = simple;
            out.push(c);
        }
        if w.rules[i].custom.is_some() {
            let mut c = w.clone();
            c.rules[i].custom = None;
            out.push(c);
        }
        if w.rules[i].set.is_some() {
            let mut c = w.clone();
            c.rules[i].set = None;
            out.push(c);
        }
        if w.rules[i].dates != 0 {
            let mut c = w.clone();
            c.rules[i].dates = 0;
            out.push(c);
        }
    }
    if w.max_threads > 2 {
        let mut c = w.clone();
        c.max_threads = 2;
        out.push(c);
    }
    if w.min_rules_per_thread > 1 {
        let mut c = w.clone();
        c.min_rules_per_thread = 1;
        out.push(c);
    }
    out
}

pub fn describe() -> (&'static str, Vec<&'static str>, Vec<&'static str>, Vec<&'static str>) {
    (
        "workloads: 1-24 rules (salience from a pool with frequent ties, 1 in 8 disabled), typed-core conditions over 4 integer fields (1 literal in 8 typed as float or string instead, and 1 rule in 6 a near-twin of an earlier \
         rule: same guard, literal typed differently or off by one) plus conditions calling a harness-registered pure custom function, optional assignment action, max_threads 1-16, min_rules_per_thread \
         1-4, parallelism on (5 in 6) and off; every workload runs under N seeded schedules. evaluations = schedules executed. A schedule is \
         non-trivial iff at least one salience level was really run by >=2 worker threads; distinct counts workloads (the observable does not \
         expose the interleaving, so schedules of one workload are not told apart)",
        vec!["ParallelRuleEngine", "KnowledgeBase", "Facts (RwLocks are shuttle's)", "condition evaluators of parallel.rs"],
        vec!["thread scheduler (shuttle RandomScheduler / PCT, seeded)", "the caller", "custom function isPos (harness, pure)"],
        vec![
            "the reference is the same engine with parallelism off on a deep copy of the initial facts; the harness's own typed-core evaluation is a second reference used only when the run left the facts unchanged, and only for rules whose literals are integers like the fields",
            "rule sets in which a worker writes a fact that another rule of the SAME salience level reads have no schedule-independent outcome and are not generated; facts are written (one workload in five) only by actions of the highest level, one kind of write per workload, and read only by lower levels",
            "max_threads >= 1 (the property's range)",
        ],
    )
}
