//! Seam S3: `RandomState` keys. std fetches them once per OS thread through libc's `getrandom`
//! (weakly linked, so a definition in the binary wins). A run executes on a fresh OS thread
//! whose thread-local seed is set first; every `HashMap::new()` on that thread then gets keys
//! that are a pure function of the seed and of the number of maps created before it.

use std::cell::Cell;

thread_local! {
    static HASH_SEED: Cell<Option<u64>> = const { Cell::new(None) };
    static CALLS: Cell<u64> = const { Cell::new(0) };
}

#[no_mangle]
pub unsafe extern "C" fn getrandom(buf: *mut libc::c_void, len: usize, flags: libc::c_uint) -> isize {
    let seed = HASH_SEED.try_with(|s| s.get()).ok().flatten();
    match seed {
        Some(seed) => {
            let n = CALLS.try_with(|c| {
                let v = c.get();
                c.set(v + 1);
                v
            })
            .unwrap_or(0);
            let mut x = super::rng::splitmix64(seed ^ n.wrapping_mul(0xA076_1D64_78BD_642F));
            let out = buf as *mut u8;
            for i in 0..len {
                if i % 8 == 0 {
                    x = super::rng::splitmix64(x);
                }
                *out.add(i) = (x >> ((i % 8) * 8)) as u8;
            }
            len as isize
        }
        None => libc::syscall(libc::SYS_getrandom, buf, len, flags) as isize,
    }
}

/// Run `f` on a fresh OS thread whose hash keys derive from `seed`.
pub fn on_seeded_thread<T: Send + 'static>(
    seed: u64,
    f: impl FnOnce() -> T + Send + 'static,
) -> std::thread::Result<T> {
    std::thread::Builder::new()
        .stack_size(8 << 20)
        .spawn(move || {
            HASH_SEED.with(|s| s.set(Some(seed)));
            f()
        })
        .expect("spawn run thread")
        .join()
}

/// Order in which a fresh set on this thread iterates over 0..16; used to assert the seam works.
pub fn probe_order() -> Vec<u32> {
    let mut s = std::collections::HashSet::new();
    for i in 0..16u32 {
        s.insert(i);
    }
    s.into_iter().collect()
}

/// The interposition must be effective: same seed, same order; different seeds, some different order.
pub fn self_check() -> Result<(), String> {
    let a1 = on_seeded_thread(11, probe_order).map_err(|_| "probe panicked")?;
    let a2 = on_seeded_thread(11, probe_order).map_err(|_| "probe panicked")?;
    if a1 != a2 {
        return Err("hash seam: same seed gave two iteration orders".into());
    }
    let mut differs = false;
    for s in 12..20u64 {
        let b = on_seeded_thread(s, probe_order).map_err(|_| "probe panicked")?;
        if b != a1 {
            differs = true;
        }
    }
    if !differs {
        return Err("hash seam: eight different seeds all gave the same iteration order (getrandom not interposed?)".into());
    }
    Ok(())
}
