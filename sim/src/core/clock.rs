//! Seam S1: the simulated clock of the current run thread. Wall (ms resolution is what the
//! library looks at, kept in ns), monotonic and Utc reads all come from here through the
//! call-back slot in `rust_rule_engine::verif_hooks`.

use rust_rule_engine::verif_hooks::{self, ClockKind};
use std::cell::RefCell;

#[derive(Debug, Default, Clone)]
pub struct ClockState {
    pub wall_ns: u64,
    pub mono_ns: u64,
    /// ms added to the wall clock after each wall/utc read, cyclic (empty = never ticks on read)
    pub tick_pattern: Vec<u8>,
    /// ns added to the monotonic clock after each monotonic read, cyclic
    pub mono_tick_pattern: Vec<u32>,
    pub reads: u64,
    pub mono_reads: u64,
    /// smallest / largest wall reading shown since `begin_call`
    pub shown_min: Option<u64>,
    pub shown_max: Option<u64>,
    pub shown_count: u64,
    /// every wall reading (ms) shown since `begin_call`, in order (capped)
    pub shown: Vec<u64>,
    /// total simulated wall time covered (forward movement only), ns
    pub covered_ns: u64,
}

thread_local! {
    static CLOCK: RefCell<Option<ClockState>> = const { RefCell::new(None) };
    /// simulated time covered by clocks already uninstalled on this thread
    static COVERED_DONE: std::cell::Cell<u64> = const { std::cell::Cell::new(0) };
}

pub const NS_PER_MS: u64 = 1_000_000;

fn with<R>(f: impl FnOnce(&mut ClockState) -> R) -> R {
    CLOCK.with(|c| f(c.borrow_mut().as_mut().expect("sim clock not installed")))
}

/// Install the simulated clock on this thread, starting at `wall_ms`.
pub fn install(wall_ms: u64) {
    CLOCK.with(|c| {
        *c.borrow_mut() = Some(ClockState {
            wall_ns: wall_ms * NS_PER_MS,
            mono_ns: 1_000,
            ..Default::default()
        })
    });
    verif_hooks::set_clock(Some(Box::new(|kind| {
        super::budget::tick();
        with(|s| match kind {
            ClockKind::Wall | ClockKind::Utc => {
                let v = s.wall_ns;
                s.shown_min = Some(s.shown_min.map_or(v, |m| m.min(v)));
                s.shown_max = Some(s.shown_max.map_or(v, |m| m.max(v)));
                s.shown_count += 1;
                if s.shown.len() < 64 {
                    s.shown.push(v / NS_PER_MS);
                }
                if !s.tick_pattern.is_empty() {
                    let d = s.tick_pattern[(s.reads as usize) % s.tick_pattern.len()] as u64 * NS_PER_MS;
                    s.wall_ns += d;
                    s.covered_ns += d;
                }
                s.reads += 1;
                v
            }
            ClockKind::Monotonic => {
                let v = s.mono_ns;
                if !s.mono_tick_pattern.is_empty() {
                    let d = s.mono_tick_pattern[(s.mono_reads as usize) % s.mono_tick_pattern.len()] as u64;
                    s.mono_ns += d;
                }
                s.mono_reads += 1;
                v
            }
        })
    })));
}

pub fn uninstall() {
    verif_hooks::set_clock(None);
    CLOCK.with(|c| {
        if let Some(s) = c.borrow_mut().take() {
            COVERED_DONE.with(|d| d.set(d.get() + s.covered_ns));
        }
    });
}

pub fn now_ms() -> u64 {
    with(|s| s.wall_ns / NS_PER_MS)
}

pub fn advance_ms(d: u64) {
    with(|s| {
        s.wall_ns += d * NS_PER_MS;
        s.covered_ns += d * NS_PER_MS;
    })
}

/// Step the wall clock back (NTP step); saturates at 1 ms after the epoch.
pub fn step_back_ms(d: u64) {
    with(|s| s.wall_ns = s.wall_ns.saturating_sub(d * NS_PER_MS).max(NS_PER_MS))
}

pub fn set_wall_ms(ms: u64) {
    with(|s| {
        let new = ms * NS_PER_MS;
        if new > s.wall_ns {
            s.covered_ns += new - s.wall_ns;
        }
        s.wall_ns = new;
    })
}

pub fn set_tick_pattern(p: Vec<u8>) {
    with(|s| s.tick_pattern = p)
}

pub fn set_mono_tick_pattern(p: Vec<u32>) {
    with(|s| s.mono_tick_pattern = p)
}

/// the monotonic reading the next read will be shown (ns)
pub fn mono_ns() -> u64 {
    with(|s| s.mono_ns)
}

pub fn advance_mono_ns(d: u64) {
    with(|s| s.mono_ns += d)
}

/// Forget which readings were shown; call before a library call whose clock reads matter.
pub fn begin_call() {
    with(|s| {
        s.shown_min = None;
        s.shown_max = None;
        s.shown_count = 0;
        s.shown.clear();
    })
}

/// wall readings (ms) shown since `begin_call`, in order
pub fn shown_list() -> Vec<u64> {
    with(|s| s.shown.clone())
}

/// (min ms, max ms, number of reads) shown since `begin_call`; None if the clock was not read.
pub fn shown_ms() -> Option<(u64, u64, u64)> {
    with(|s| match (s.shown_min, s.shown_max) {
        (Some(a), Some(b)) => Some((a / NS_PER_MS, b / NS_PER_MS, s.shown_count)),
        _ => None,
    })
}

pub fn covered_ms() -> u64 {
    (COVERED_DONE.with(|d| d.get()) + CLOCK.with(|c| c.borrow().as_ref().map_or(0, |s| s.covered_ns))) / NS_PER_MS
}
