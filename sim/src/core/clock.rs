//! Seam S1: the simulated clock of the current run thread. Wall (ms resolution is what the
//! library looks at, kept in ns), monotonic and Utc reads all come from here through the
//! call-back slot in `rust_rule_engine::verif_hooks`.

use rust_rule_engine::verif_hooks::{self, ClockKind};
use std::cell::RefCell;

#[derive(Debug, Default, Clone)]
pub struct ClockState {
    pub wall_ns: u64,
    pub mono_ns: u64,
    /// ms added to the wall clock after each wall/utc read, cyclic (empty = never ticks on read)
    pub tick_pattern: Vec<u8>,
    /// ns added to the monotonic clock after each monotonic read, cyclic
    pub mono_tick_pattern: Vec<u32>,
    pub reads: u64,
    pub mono_reads: u64,
    /// smallest / largest wall reading shown since `begin_call`
    pub shown_min: Option<u64>,
    pub shown_max: Option<u64>,
    pub shown_count: u64,
    /// every wall reading (ms) shown since `begin_call`, in order (capped)
    pub shown: Vec<u64>,
    /// total simulated wall time covered (forward movement only), ns
    pub covered_ns: u64,
}

thread_local! {
    static CLOCK: RefCell<Option<ClockState>> = const { RefCell::new(None) };
    /// simulated time covered by clocks already uninstalled on this thread
    static COVERED_DONE: std::cell::Cell<u64> = const { std::cell::Cell::new(0) };
    static PEEKS: std::cell::Cell<u64> = const { std::cell::Cell::new(0) };
}

pub const NS_PER_MS: u64 = 1_000_000;

// ------------------------------------------------------------------------------------------------------------
// Seam S1d: clock reads that do NOT go through a hook. The guarded hooks (H3-H7) cover the clock reads the
// properties depend on in the pinned tree; a change to the library can add a read of its own
// (`Instant::now()` in a constructor, say), and before this seam existed such a read saw the real clock — the
// run then depended on how long the process had been alive, and a violation found by a worker process did not
// replay in a fresh one (seeded change C07-o). std reaches the kernel clocks through libc's `clock_gettime`; a
// definition in the binary wins the link, exactly like `getrandom` (core/hashseed.rs). On a thread with a
// simulated clock installed every such read is a PEEK at that clock: it returns the current simulated reading
// and changes nothing (no tick-on-read, no step budget, no entry in the read log), so the hooked reads behave as
// before. On every other thread (driver, watchdog, worker main thread) the real clock answers.

/// simulated monotonic instants are `MONO_EPOCH_NS + mono_ns`
const MONO_EPOCH_NS: u64 = 1_000_000 * 1_000_000_000;

#[no_mangle]
pub unsafe extern "C" fn clock_gettime(clk: libc::clockid_t, ts: *mut libc::timespec) -> libc::c_int {
    let peek: Option<u64> = CLOCK
        .try_with(|c| match c.try_borrow() {
            Ok(g) => g.as_ref().and_then(|s| match clk {
                libc::CLOCK_REALTIME | libc::CLOCK_REALTIME_COARSE => Some(s.wall_ns),
                libc::CLOCK_MONOTONIC | libc::CLOCK_MONOTONIC_RAW | libc::CLOCK_MONOTONIC_COARSE | libc::CLOCK_BOOTTIME => Some(MONO_EPOCH_NS + s.mono_ns),
                _ => None,
            }),
            Err(_) => None,
        })
        .ok()
        .flatten();
    match peek {
        Some(ns) if !ts.is_null() => {
            (*ts).tv_sec = (ns / 1_000_000_000) as libc::time_t;
            (*ts).tv_nsec = (ns % 1_000_000_000) as libc::c_long;
            PEEKS.try_with(|p| p.set(p.get() + 1)).ok();
            0
        }
        _ => libc::syscall(libc::SYS_clock_gettime, clk, ts) as libc::c_int,
    }
}

/// Fix the base of the hooked monotonic clock (`verif_hooks::instant_now()` = BASE + simulated ns, BASE being
/// taken once per process) at the simulated epoch, so that hooked and un-hooked monotonic reads show the same
/// clock. Call once at process start.
pub fn init_base() {
    install(0);
    with(|s| s.mono_ns = 0);
    let b = verif_hooks::instant_now();
    let again = std::time::Instant::now();
    uninstall();
    debug_assert!(again >= b);
}

/// The interposition must be effective (a thread with a simulated clock sees it through plain std calls) and
/// must not leak (a thread without one sees the real clock).
pub fn self_check() -> Result<(), String> {
    let real_before = std::time::SystemTime::now().duration_since(std::time::UNIX_EPOCH).map(|d| d.as_millis() as u64).unwrap_or(0);
    install(1_234_567);
    advance_mono_ns(777);
    let wall = std::time::SystemTime::now().duration_since(std::time::UNIX_EPOCH).map(|d| d.as_millis() as u64).unwrap_or(0);
    let i1 = std::time::Instant::now();
    let hooked = verif_hooks::instant_now();
    advance_mono_ns(5);
    let i2 = std::time::Instant::now();
    uninstall();
    let real_after = std::time::SystemTime::now().duration_since(std::time::UNIX_EPOCH).map(|d| d.as_millis() as u64).unwrap_or(0);
    if wall != 1_234_567 {
        return Err(format!("clock seam: SystemTime::now() on a simulated thread shows {wall} ms, not the simulated 1234567 (clock_gettime not interposed?)"));
    }
    if i2.duration_since(i1).as_nanos() != 5 {
        return Err(format!("clock seam: Instant::now() moved by {} ns while the simulated monotonic clock moved by 5", i2.duration_since(i1).as_nanos()));
    }
    if hooked != i1 {
        return Err("clock seam: the hooked monotonic read and a plain Instant::now() disagree".into());
    }
    if real_before < 1_600_000_000_000 || real_after < real_before {
        return Err("clock seam: a thread without a simulated clock does not see the real clock".into());
    }
    Ok(())
}

/// number of un-hooked clock reads answered from the simulated clock on this thread
pub fn peeks() -> u64 {
    PEEKS.with(|p| p.get())
}

fn with<R>(f: impl FnOnce(&mut ClockState) -> R) -> R {
    CLOCK.with(|c| f(c.borrow_mut().as_mut().expect("sim clock not installed")))
}

/// Install the simulated clock on this thread, starting at `wall_ms`.
pub fn install(wall_ms: u64) {
    CLOCK.with(|c| {
        *c.borrow_mut() = Some(ClockState {
            wall_ns: wall_ms * NS_PER_MS,
            mono_ns: 1_000,
            ..Default::default()
        })
    });
    verif_hooks::set_clock(Some(Box::new(|kind| {
        super::budget::tick();
        with(|s| match kind {
            ClockKind::Wall | ClockKind::Utc => {
                let v = s.wall_ns;
                s.shown_min = Some(s.shown_min.map_or(v, |m| m.min(v)));
                s.shown_max = Some(s.shown_max.map_or(v, |m| m.max(v)));
                s.shown_count += 1;
                if s.shown.len() < 64 {
                    s.shown.push(v / NS_PER_MS);
                }
                if !s.tick_pattern.is_empty() {
                    let d = s.tick_pattern[(s.reads as usize) % s.tick_pattern.len()] as u64 * NS_PER_MS;
                    s.wall_ns += d;
                    s.covered_ns += d;
                }
                s.reads += 1;
                v
            }
            ClockKind::Monotonic => {
                let v = s.mono_ns;
                if !s.mono_tick_pattern.is_empty() {
                    let d = s.mono_tick_pattern[(s.mono_reads as usize) % s.mono_tick_pattern.len()] as u64;
                    s.mono_ns += d;
                }
                s.mono_reads += 1;
                v
            }
        })
    })));
}

pub fn uninstall() {
    verif_hooks::set_clock(None);
    CLOCK.with(|c| {
        if let Some(s) = c.borrow_mut().take() {
            COVERED_DONE.with(|d| d.set(d.get() + s.covered_ns));
        }
    });
}

pub fn now_ms() -> u64 {
    with(|s| s.wall_ns / NS_PER_MS)
}

pub fn advance_ms(d: u64) {
    with(|s| {
        s.wall_ns += d * NS_PER_MS;
        s.covered_ns += d * NS_PER_MS;
    })
}

/// Step the wall clock back (NTP step); saturates at 1 ms after the epoch.
pub fn step_back_ms(d: u64) {
    with(|s| s.wall_ns = s.wall_ns.saturating_sub(d * NS_PER_MS).max(NS_PER_MS))
}

pub fn set_wall_ms(ms: u64) {
    with(|s| {
        let new = ms * NS_PER_MS;
        if new > s.wall_ns {
            s.covered_ns += new - s.wall_ns;
        }
        s.wall_ns = new;
    })
}

pub fn set_tick_pattern(p: Vec<u8>) {
    with(|s| s.tick_pattern = p)
}

pub fn set_mono_tick_pattern(p: Vec<u32>) {
    with(|s| s.mono_tick_pattern = p)
}

/// the monotonic reading the next read will be shown (ns)
pub fn mono_ns() -> u64 {
    with(|s| s.mono_ns)
}

pub fn advance_mono_ns(d: u64) {
    with(|s| s.mono_ns += d)
}

/// Forget which readings were shown; call before a library call whose clock reads matter.
pub fn begin_call() {
    with(|s| {
        s.shown_min = None;
        s.shown_max = None;
        s.shown_count = 0;
        s.shown.clear();
    })
}

/// wall readings (ms) shown since `begin_call`, in order
pub fn shown_list() -> Vec<u64> {
    with(|s| s.shown.clone())
}

/// (min ms, max ms, number of reads) shown since `begin_call`; None if the clock was not read.
pub fn shown_ms() -> Option<(u64, u64, u64)> {
    with(|s| match (s.shown_min, s.shown_max) {
        (Some(a), Some(b)) => Some((a / NS_PER_MS, b / NS_PER_MS, s.shown_count)),
        _ => None,
    })
}

pub fn covered_ms() -> u64 {
    (COVERED_DONE.with(|d| d.get()) + CLOCK.with(|c| c.borrow().as_ref().map_or(0, |s| s.covered_ns))) / NS_PER_MS
}
