//! Simulator core: seeds, per-run observation record, the world interface, the batch driver,
//! delta-debugging minimiser, replay files, known findings and evidence.

pub mod budget;
pub mod clock;
pub mod hashseed;
pub mod rng;

use rng::Rng;
use serde::de::DeserializeOwned;
use serde::{Deserialize, Serialize};
use serde_json::{json, Value as Json};
use std::collections::{BTreeMap, BTreeSet, HashSet};
use std::io::Write;
use std::sync::atomic::{AtomicU64, Ordering};
use std::sync::{Arc, Mutex};
use std::time::Instant;

pub const DEFAULT_SEED: u64 = 20260925;

#[derive(Clone, Copy, Debug, PartialEq, Eq)]
pub enum Tier {
    Quick,
    Thorough,
}

impl Tier {
    pub fn as_str(&self) -> &'static str {
        match self {
            Tier::Quick => "quick",
            Tier::Thorough => "thorough",
        }
    }
}

#[derive(Clone, Debug, Serialize, Deserialize, PartialEq)]
pub struct Violation {
    pub property: String,
    /// clause id, e.g. `restore.exact`
    pub clause: String,
    /// component / call site the clause was evaluated at
    pub site: String,
    /// structural pattern of the failure (stable under minimisation); used to match known findings
    pub signature: String,
    pub message: String,
    /// index of the client step at which the clause failed
    pub step: usize,
}

impl Violation {
    pub fn new(property: &str, clause: &str, site: &str, signature: &str, message: String, step: usize) -> Self {
        Violation {
            property: property.into(),
            clause: clause.into(),
            site: site.into(),
            signature: signature.into(),
            message,
            step,
        }
    }
    pub fn same_class(&self, other: &Violation) -> bool {
        self.property == other.property
            && self.clause == other.clause
            && self.site == other.site
            && self.signature == other.signature
    }
}

#[derive(Clone, Debug, Deserialize)]
pub struct KnownEntry {
    pub status: String, // "known" | "fixed"
    pub property: String,
    pub clause: String,
    pub site: String,
    pub signature: String,
    pub what: String,
    #[serde(default)]
    pub commit: Option<String>,
}

#[derive(Clone, Debug, Default)]
pub struct Known {
    pub entries: Vec<KnownEntry>,
}

impl Known {
    pub fn load(path: &str) -> Result<Known, String> {
        let text = match std::fs::read_to_string(path) {
            Ok(t) => t,
            Err(_) => return Ok(Known::default()),
        };
        #[derive(Deserialize)]
        struct FileFmt {
            findings: Vec<KnownEntry>,
        }
        let f: FileFmt = serde_json::from_str(&text).map_err(|e| format!("{path}: {e}"))?;
        Ok(Known { entries: f.findings })
    }
    /// index of the *known* (not fixed) entry that matches
    pub fn find(&self, v: &Violation) -> Option<usize> {
        self.entries.iter().position(|e| {
            e.status == "known"
                && e.property == v.property
                && e.clause == v.clause
                && e.site == v.site
                && e.signature == v.signature
        })
    }
}

/// What one run observed (besides its verdict).
pub struct Obs {
    pub counters: BTreeMap<String, u64>,
    fp: u64,
    pub nontrivial: bool,
    pub faulty: bool,
    pub sim_ms: u64,
    known: Arc<Known>,
    pub known_hits: BTreeMap<usize, u64>,
}

impl Obs {
    pub fn new(known: Arc<Known>) -> Self {
        Obs {
            counters: BTreeMap::new(),
            fp: 0xcbf2_9ce4_8422_2325,
            nontrivial: false,
            faulty: false,
            sim_ms: 0,
            known,
            known_hits: BTreeMap::new(),
        }
    }
    pub fn count(&mut self, key: &str) {
        *self.counters.entry(key.to_string()).or_insert(0) += 1;
    }
    pub fn add(&mut self, key: &str, n: u64) {
        *self.counters.entry(key.to_string()).or_insert(0) += n;
    }
    /// fold something into the state/interleaving fingerprint of this run
    pub fn fp(&mut self, bytes: &[u8]) {
        for b in bytes {
            self.fp ^= *b as u64;
            self.fp = self.fp.wrapping_mul(0x0000_0100_0000_01B3);
        }
        self.fp = self.fp.rotate_left(5) ^ 0x9E37;
    }
    pub fn fp_u64(&mut self, x: u64) {
        self.fp(&x.to_le_bytes());
    }
    pub fn fp_str(&mut self, s: &str) {
        self.fp(s.as_bytes());
    }
    pub fn fingerprint(&self) -> u64 {
        self.fp
    }
    /// If `v` matches a known (unrepaired) finding: count it and return true — the caller then
    /// resynchronises its model and carries on (or ends the run) instead of reporting.
    pub fn is_known(&mut self, v: &Violation) -> bool {
        match self.known.find(v) {
            Some(i) => {
                *self.known_hits.entry(i).or_insert(0) += 1;
                true
            }
            None => false,
        }
    }
}

pub struct WorldInfo {
    pub level: &'static str,
    pub rule: String,
    pub real: Vec<&'static str>,
    pub stub: Vec<&'static str>,
    pub assumptions: Vec<String>,
    /// counters that must be non-zero after a thorough batch (else exit 2: workload is wrong)
    pub required_probes: Vec<&'static str>,
    /// is a run that never returns (wall-clock watchdog) a violation of the property, or harness trouble?
    /// true where a run's cost is bounded by construction, so that only a genuine hang can outlive the watchdog
    pub hang_is_a_verdict: bool,
    pub quick_runs: u64,
    pub thorough_runs: u64,
}

pub trait World: Sync + Send + 'static {
    type Trace: Serialize + DeserializeOwned + Clone + Send + Sync + 'static;
    fn name(&self) -> &'static str;
    fn info(&self, prop: &str) -> WorldInfo;
    /// first draw of a run's stream: the hash seed; the rest is the world's business
    fn generate(&self, prop: &str, tier: Tier, rng: &mut Rng) -> Self::Trace;
    fn hash_seed(&self, trace: &Self::Trace) -> u64;
    /// executes the trace against the real code; evaluates only the clauses of `prop`
    fn run(&self, prop: &str, trace: &Self::Trace, obs: &mut Obs) -> Result<(), Violation>;
    /// simpler variants of the trace, most aggressive first
    fn shrink(&self, trace: &Self::Trace) -> Vec<Self::Trace>;
}

pub struct RunOutcome {
    pub obs: Obs,
    pub result: Result<(), Violation>,
}

fn panic_message(p: &Box<dyn std::any::Any + Send>) -> String {
    if let Some(s) = p.downcast_ref::<&str>() {
        s.to_string()
    } else if let Some(s) = p.downcast_ref::<String>() {
        s.clone()
    } else if p.downcast_ref::<budget::StepBudgetExceeded>().is_some() {
        "step budget exceeded".to_string()
    } else {
        "panic with non-string payload".to_string()
    }
}

pub fn panic_text(p: &Box<dyn std::any::Any + Send>) -> String {
    panic_message(p)
}

/// One run = one fresh OS thread with seeded hash keys.
pub fn exec_trace<W: World>(world: &Arc<W>, prop: &str, trace: &W::Trace, known: &Arc<Known>) -> RunOutcome {
    let hs = world.hash_seed(trace);
    let w = world.clone();
    let t = trace.clone();
    let p = prop.to_string();
    let k = known.clone();
    let k2 = known.clone();
    let p2 = prop.to_string();
    let joined = hashseed::on_seeded_thread(hs, move || {
        let mut obs = Obs::new(k);
        let r = std::panic::catch_unwind(std::panic::AssertUnwindSafe(|| w.run(&p, &t, &mut obs)));
        let covered = clock::covered_ms();
        obs.sim_ms += covered;
        let result = match r {
            Ok(r) => r,
            Err(payload) => Err(Violation::new(
                &p,
                "returns.no-panic",
                "harness-level catch",
                "escaped-panic",
                format!("library code panicked: {}", panic_message(&payload)),
                usize::MAX,
            )),
        };
        RunOutcome { obs, result }
    });
    match joined {
        Ok(o) => o,
        Err(payload) => RunOutcome {
            obs: Obs::new(k2),
            result: Err(Violation::new(
                &p2,
                "returns.no-panic",
                "run thread",
                "thread-panic",
                format!("run thread died: {}", panic_message(&payload)),
                usize::MAX,
            )),
        },
    }
}

#[derive(Serialize, Deserialize)]
pub struct ReplayFile {
    pub world: String,
    pub property: String,
    pub run_seed: u64,
    pub batch_seed: u64,
    pub run_index: u64,
    pub minimised: bool,
    pub violation: Violation,
    pub trace: Json,
}

pub struct Report {
    out: Mutex<std::fs::File>,
}

impl Report {
    /// Point fds 1 and 2 at /dev/null (library code prints) and keep the original stdout for us.
    pub fn take_over_stdio() -> Report {
        use std::os::unix::io::FromRawFd;
        unsafe {
            let keep = libc::dup(1);
            let devnull = libc::open(b"/dev/null\0".as_ptr() as *const libc::c_char, libc::O_WRONLY);
            if std::env::var("VERIF_KEEP_STDIO").is_err() {
                libc::dup2(devnull, 1);
                libc::dup2(devnull, 2);
            }
            Report {
                out: Mutex::new(std::fs::File::from_raw_fd(keep)),
            }
        }
    }
    pub fn line(&self, s: &str) {
        let mut f = self.out.lock().unwrap();
        let _ = writeln!(f, "{s}");
        let _ = f.flush();
    }
}

pub struct BatchArgs {
    pub prop: String,
    pub tier: Tier,
    pub seed: u64,
    pub runs: Option<u64>,
    pub workers: usize,
    pub max_secs: u64,
    pub evidence_path: Option<String>,
    pub known_path: String,
    pub replay_dir: String,
    pub log_digest: bool,
}

#[derive(Serialize, Deserialize, Default)]
struct WorkerAgg {
    counters: BTreeMap<String, u64>,
    runs: u64,
    nontrivial: u64,
    faulty_runs: u64,
    fault_free_runs: u64,
    sim_ms: u64,
    samples: Vec<(u64, Json)>,
    known_hits: BTreeMap<usize, u64>,
    digest: u64,
    violation: Option<(u64, Violation, Json)>,
    timed_out: bool,
}

/// A few u64 slots shared between the driver and its worker processes (a file in /dev/shm):
/// slot 0 = lowest failing run index so far (workers skip indices above it), slot 1+k = the run
/// index worker k is executing right now (read by the watchdog).
pub struct Shared {
    ptr: *mut AtomicU64,
    slots: usize,
}
unsafe impl Send for Shared {}
unsafe impl Sync for Shared {}

impl Shared {
    pub fn open(path: &str, slots: usize, create: bool) -> Result<Shared, String> {
        use std::os::unix::io::AsRawFd;
        let f = std::fs::OpenOptions::new()
            .read(true)
            .write(true)
            .create(create)
            .open(path)
            .map_err(|e| format!("{path}: {e}"))?;
        if create {
            f.set_len((slots * 8) as u64).map_err(|e| e.to_string())?;
        }
        let p = unsafe {
            libc::mmap(
                std::ptr::null_mut(),
                slots * 8,
                libc::PROT_READ | libc::PROT_WRITE,
                libc::MAP_SHARED,
                f.as_raw_fd(),
                0,
            )
        };
        if p == libc::MAP_FAILED {
            return Err(format!("mmap {path} failed"));
        }
        Ok(Shared { ptr: p as *mut AtomicU64, slots })
    }
    pub fn slot(&self, i: usize) -> &AtomicU64 {
        assert!(i < self.slots);
        unsafe { &*self.ptr.add(i) }
    }
}

pub struct WorkerArgs {
    pub prop: String,
    pub tier: Tier,
    pub seed: u64,
    pub runs: u64,
    pub stride: u64,
    pub offset: u64,
    pub max_secs: u64,
    pub shared_path: String,
    pub out_path: String,
    pub known_path: String,
}

/// Worker process: executes run indices offset, offset+stride, … on one thread (plus one fresh
/// OS thread per run for the hash seam) and writes its aggregate to `out_path`.
pub fn run_worker<W: World>(world: W, a: &WorkerArgs) -> i32 {
    let world = Arc::new(world);
    let known = Arc::new(Known::load(&a.known_path).unwrap_or_default());
    let shared = match Shared::open(&a.shared_path, 1 + a.stride as usize, false) {
        Ok(s) => s,
        Err(_) => return 2,
    };
    let stop_at = shared.slot(0);
    let mine = shared.slot(1 + a.offset as usize);
    let wname = world.name();
    let started = Instant::now();
    let mut agg = WorkerAgg::default();
    let mut fps: HashSet<u64> = HashSet::new();
    let mut i = a.offset;
    let mut n = 0u64;
    while i < a.runs && i < stop_at.load(Ordering::SeqCst) {
        if n % 64 == 0 && started.elapsed().as_secs() >= a.max_secs {
            agg.timed_out = true;
            break;
        }
        n += 1;
        mine.store(i, Ordering::SeqCst);
        let rs = rng::run_seed(a.seed, wname, i);
        let mut rng = Rng::new(rs);
        let trace = match std::panic::catch_unwind(std::panic::AssertUnwindSafe(|| world.generate(&a.prop, a.tier, &mut rng))) {
            Ok(t) => t,
            Err(p) => {
                let _ = std::fs::write(
                    format!("{}.err", a.out_path),
                    format!("generator panicked at run index {i}: {}", panic_message(&p)),
                );
                return 2;
            }
        };
        let out = exec_trace(&world, &a.prop, &trace, &known);
        agg.runs += 1;
        for (k, v) in &out.obs.counters {
            *agg.counters.entry(k.clone()).or_insert(0) += v;
        }
        for (k, v) in &out.obs.known_hits {
            *agg.known_hits.entry(*k).or_insert(0) += v;
        }
        agg.sim_ms += out.obs.sim_ms;
        if out.obs.faulty {
            agg.faulty_runs += 1;
        } else {
            agg.fault_free_runs += 1;
        }
        // order-independent digest of (index, fingerprint, verdict) for the determinism self-test
        let verdict = match &out.result {
            Ok(()) => 0u64,
            Err(v) => rng::fnv1a(format!("{}|{}|{}", v.clause, v.signature, v.message).as_bytes()),
        };
        agg.digest = agg.digest.wrapping_add(rng::splitmix64(
            i ^ out.obs.fingerprint().rotate_left(17) ^ verdict.rotate_left(31),
        ));
        if out.obs.nontrivial {
            agg.nontrivial += 1;
            if fps.len() < 2_000_000 {
                fps.insert(out.obs.fingerprint());
            }
            if agg.samples.len() < 3 {
                agg.samples.push((i, serde_json::to_value(&trace).unwrap_or(Json::Null)));
            }
        }
        if let Err(v) = out.result {
            let mut o2 = Obs::new(known.clone());
            if o2.is_known(&v) {
                for (k, n) in &o2.known_hits {
                    *agg.known_hits.entry(*k).or_insert(0) += n;
                }
            } else {
                stop_at.fetch_min(i, Ordering::SeqCst);
                agg.violation = Some((i, v, serde_json::to_value(&trace).unwrap_or(Json::Null)));
                break;
            }
        }
        i += a.stride;
    }
    mine.store(u64::MAX, Ordering::SeqCst);
    let mut bytes = Vec::with_capacity(fps.len() * 8);
    for f in &fps {
        bytes.extend_from_slice(&f.to_le_bytes());
    }
    if std::fs::write(format!("{}.fps", a.out_path), bytes).is_err() {
        return 2;
    }
    match std::fs::write(&a.out_path, serde_json::to_vec(&agg).unwrap()) {
        Ok(()) => 0,
        Err(_) => 2,
    }
}

/// Driver: spawns the worker processes, merges, minimises, writes evidence. Returns the exit code.
pub fn run_batch<W: World>(world: W, args: &BatchArgs, report: &Report) -> i32 {
    let world = Arc::new(world);
    let info = world.info(&args.prop);
    let known = match Known::load(&args.known_path) {
        Ok(k) => Arc::new(k),
        Err(e) => {
            report.line(&format!("HARNESS-ERROR: {e}"));
            return 2;
        }
    };
    if let Err(e) = hashseed::self_check() {
        report.line(&format!("HARNESS-ERROR: {e}"));
        return 2;
    }
    match std::thread::spawn(clock::self_check).join() {
        Ok(Ok(())) => {}
        Ok(Err(e)) => {
            report.line(&format!("HARNESS-ERROR: {e}"));
            return 2;
        }
        Err(_) => {
            report.line("HARNESS-ERROR: clock seam self-check panicked");
            return 2;
        }
    }
    let runs = args.runs.unwrap_or(match args.tier {
        Tier::Quick => info.quick_runs,
        Tier::Thorough => info.thorough_runs,
    });
    let started = Instant::now();
    let wname = world.name();
    let workers = args.workers.max(1) as u64;
    report.line(&format!(
        "sim world={} property={} tier={} VERIF_SEED={} runs={} workers={}",
        wname,
        args.prop,
        args.tier.as_str(),
        args.seed,
        runs,
        workers
    ));
    let scratch = format!(
        "{}/rre-verif-{}-{}",
        std::env::var("VERIF_SCRATCH").unwrap_or_else(|_| "/dev/shm".into()),
        std::process::id(),
        args.prop
    );
    let _ = std::fs::remove_dir_all(&scratch);
    if let Err(e) = std::fs::create_dir_all(&scratch) {
        report.line(&format!("HARNESS-ERROR: cannot create scratch {scratch}: {e}"));
        return 2;
    }
    struct Cleanup(String);
    impl Drop for Cleanup {
        fn drop(&mut self) {
            let _ = std::fs::remove_dir_all(&self.0);
        }
    }
    let _cleanup = Cleanup(scratch.clone());
    let shared_path = format!("{scratch}/shared");
    let shared = match Shared::open(&shared_path, 1 + workers as usize, true) {
        Ok(s) => s,
        Err(e) => {
            report.line(&format!("HARNESS-ERROR: {e}"));
            return 2;
        }
    };
    shared.slot(0).store(runs, Ordering::SeqCst);
    for k in 0..workers {
        shared.slot(1 + k as usize).store(u64::MAX, Ordering::SeqCst);
    }
    let exe = match std::env::current_exe() {
        Ok(e) => e,
        Err(e) => {
            report.line(&format!("HARNESS-ERROR: {e}"));
            return 2;
        }
    };
    let mut children = Vec::new();
    for k in 0..workers {
        let child = std::process::Command::new(&exe)
            .arg("worker")
            .arg(&args.prop)
            .args(["--tier", args.tier.as_str()])
            .args(["--seed", &args.seed.to_string()])
            .args(["--runs", &runs.to_string()])
            .args(["--stride", &workers.to_string()])
            .args(["--offset", &k.to_string()])
            .args(["--max-secs", &args.max_secs.to_string()])
            .args(["--shared", &shared_path])
            .args(["--out", &format!("{scratch}/w{k}.json")])
            .env("VERIF_SCRATCH_RUN", format!("{scratch}/w{k}.d"))
            .spawn();
        match child {
            Ok(c) => children.push(c),
            Err(e) => {
                report.line(&format!("HARNESS-ERROR: cannot spawn worker: {e}"));
                return 2;
            }
        }
    }
    // wait, with a wall-clock watchdog as the backstop for loops that touch no seam
    let deadline = args.max_secs + 120;
    let mut hung: Option<u64> = None;
    let mut worker_failed = false;
    for (k, c) in children.iter_mut().enumerate() {
        loop {
            match c.try_wait() {
                Ok(Some(st)) => {
                    if st.code() != Some(0) {
                        worker_failed = true;
                    }
                    break;
                }
                Ok(None) => {
                    if started.elapsed().as_secs() > deadline {
                        let at = shared.slot(1 + k).load(Ordering::SeqCst);
                        let _ = c.kill();
                        let _ = c.wait();
                        if at != u64::MAX {
                            hung = Some(hung.map_or(at, |h| h.min(at)));
                        }
                        break;
                    }
                    std::thread::sleep(std::time::Duration::from_millis(20));
                }
                Err(_) => {
                    worker_failed = true;
                    break;
                }
            }
        }
    }

    // merge
    let mut counters: BTreeMap<String, u64> = BTreeMap::new();
    let mut fps: HashSet<u64> = HashSet::new();
    let mut total_runs = 0;
    let mut nontrivial = 0;
    let mut faulty_runs = 0;
    let mut fault_free_runs = 0;
    let mut sim_ms = 0;
    let mut samples: Vec<(u64, Json)> = Vec::new();
    let mut known_hits: BTreeMap<usize, u64> = BTreeMap::new();
    let mut digest = 0u64;
    let mut timed_out = false;
    let mut violation: Option<(u64, Violation, Json)> = None;
    for k in 0..workers {
        let path = format!("{scratch}/w{k}.json");
        let a: WorkerAgg = match std::fs::read(&path).ok().and_then(|b| serde_json::from_slice(&b).ok()) {
            Some(a) => a,
            None => {
                if hung.is_none() {
                    worker_failed = true;
                }
                continue;
            }
        };
        if let Ok(bytes) = std::fs::read(format!("{path}.fps")) {
            for ch in bytes.chunks_exact(8) {
                fps.insert(u64::from_le_bytes(ch.try_into().unwrap()));
            }
        }
        for (k, v) in a.counters {
            *counters.entry(k).or_insert(0) += v;
        }
        total_runs += a.runs;
        nontrivial += a.nontrivial;
        faulty_runs += a.faulty_runs;
        fault_free_runs += a.fault_free_runs;
        sim_ms += a.sim_ms;
        samples.extend(a.samples);
        for (k, v) in a.known_hits {
            *known_hits.entry(k).or_insert(0) += v;
        }
        digest = digest.wrapping_add(a.digest);
        timed_out |= a.timed_out;
        if let Some((i, v, t)) = a.violation {
            if violation.as_ref().map_or(true, |(j, _, _)| i < *j) {
                violation = Some((i, v, t));
            }
        }
    }
    if worker_failed {
        for k in 0..workers {
            if let Ok(msg) = std::fs::read_to_string(format!("{scratch}/w{k}.json.err")) {
                report.line(&format!("HARNESS-ERROR: worker {k}: {msg}"));
            }
        }
        report.line("HARNESS-ERROR: a worker process failed (crashed or could not write its result)");
        return 2;
    }
    samples.sort_by_key(|(i, _)| *i);
    samples.truncate(3);
    let wall = started.elapsed().as_secs_f64();

    let mut violations = 0;
    let mut exit = 0;
    let mut replay_path = None;
    if let Some(idx) = hung {
        if !world.info(&args.prop).hang_is_a_verdict {
            // this world's runs are bounded by the harness's own step budgets, and its properties say nothing
            // about time: a run that outlives the watchdog means a budget is too generous — harness trouble
            report.line(&format!("HARNESS-ERROR: run {idx} did not return within the wall-clock watchdog ({deadline}s for the batch); the step budgets of world {wname} need tightening (no verdict)"));
            return 2;
        }
        if violation.as_ref().map_or(true, |(j, _, _)| idx < *j) {
            // a run that never returned: report it unminimised (minimising a hang is unbounded)
            let rs = rng::run_seed(args.seed, wname, idx);
            let mut rng = Rng::new(rs);
            let trace = world.generate(&args.prop, args.tier, &mut rng);
            let v = Violation::new(
                &args.prop,
                "returns.no-hang",
                "watchdog",
                "run-did-not-return",
                format!("run {idx} did not return within the wall-clock watchdog ({deadline}s for the batch)"),
                usize::MAX,
            );
            let _ = std::fs::create_dir_all(&args.replay_dir);
            let path = format!("{}/{}-{}.json", args.replay_dir, args.prop, rs);
            let rf = ReplayFile {
                world: wname.to_string(),
                property: args.prop.clone(),
                run_seed: rs,
                batch_seed: args.seed,
                run_index: idx,
                minimised: false,
                violation: v,
                trace: serde_json::to_value(&trace).unwrap(),
            };
            let _ = std::fs::write(&path, serde_json::to_string_pretty(&rf).unwrap());
            report.line(&format!("VIOLATION property={} replay={}", args.prop, path));
            return 1;
        }
    }
    if let Some((idx, v, trace_json)) = violation {
        violations = 1;
        let rs = rng::run_seed(args.seed, wname, idx);
        report.line(&format!(
            "violation at run {} (run_seed {}): [{}] {} @{} :: {}",
            idx, rs, v.clause, v.signature, v.site, v.message
        ));
        let trace: W::Trace = match serde_json::from_value(trace_json) {
            Ok(t) => t,
            Err(e) => {
                report.line(&format!("HARNESS-ERROR: worker trace does not parse: {e}"));
                return 2;
            }
        };
        let (min_trace, min_v, shrink_runs) = minimise(&world, &args.prop, trace, v, &known);
        report.line(&format!(
            "minimised after {} candidate runs: [{}] step {} :: {}",
            shrink_runs, min_v.clause, min_v.step, min_v.message
        ));
        let _ = std::fs::create_dir_all(&args.replay_dir);
        let path = format!("{}/{}-{}.json", args.replay_dir, args.prop, rs);
        let rf = ReplayFile {
            world: wname.to_string(),
            property: args.prop.clone(),
            run_seed: rs,
            batch_seed: args.seed,
            run_index: idx,
            minimised: true,
            violation: min_v.clone(),
            trace: serde_json::to_value(&min_trace).unwrap(),
        };
        if let Err(e) = std::fs::write(&path, serde_json::to_string_pretty(&rf).unwrap()) {
            report.line(&format!("HARNESS-ERROR: cannot write replay {path}: {e}"));
            return 2;
        }
        // fresh-process confirmation
        match confirm_replay(&path) {
            Ok(true) => {
                report.line(&format!("VIOLATION property={} replay={}", args.prop, path));
                exit = 1;
                replay_path = Some(path);
            }
            Ok(false) => {
                report.line(&format!(
                    "HARNESS-ERROR: replay {path} did not reproduce [{}] in a fresh process",
                    min_v.clause
                ));
                exit = 2;
            }
            Err(e) => {
                report.line(&format!("HARNESS-ERROR: replay confirmation failed to run: {e}"));
                exit = 2;
            }
        }
    }

    for (k, n) in &known_hits {
        let e = &known.entries[*k];
        report.line(&format!(
            "KNOWN-FINDING: property={} clause={} site={} signature={} hits={} :: {}",
            e.property, e.clause, e.site, e.signature, n, e.what
        ));
    }

    // probes
    let mut missing = Vec::new();
    if exit == 0 && args.tier == Tier::Thorough && !timed_out && args.runs.is_none() {
        for p in &info.required_probes {
            if counters.get(*p).copied().unwrap_or(0) == 0 {
                missing.push(p.to_string());
            }
        }
    }

    if let Some(path) = &args.evidence_path {
        let faults: BTreeMap<&String, &u64> = counters.iter().filter(|(k, _)| k.starts_with("fault.")).collect();
        let probes: BTreeMap<&String, &u64> = counters.iter().filter(|(k, _)| !k.starts_with("fault.")).collect();
        let kh: Vec<Json> = known_hits
            .iter()
            .map(|(k, n)| json!({"clause": known.entries[*k].clause, "signature": known.entries[*k].signature, "hits": n}))
            .collect();
        let per_hour = if wall > 0.0 { (total_runs as f64 / wall * 3600.0) as u64 } else { 0 };
        let ev = json!({
            "property_id": args.prop,
            "tier": args.tier.as_str(),
            "seed": args.seed,
            "level": info.level,
            "coverage": {
                "evaluations": total_runs,
                "distinct_nontrivial": fps.len(),
                "nontrivial_runs": nontrivial,
                "rule": info.rule,
                "samples": samples.iter().map(|(i, t)| json!({"run_index": i, "run_seed": rng::run_seed(args.seed, wname, *i), "trace": t})).collect::<Vec<_>>(),
                "runs_per_hour": per_hour,
                "seeds_per_hour": per_hour,
                "simulated_ms": sim_ms,
                "fault_free_runs": fault_free_runs,
                "fault_injecting_runs": faulty_runs,
                "faults_fired": faults,
                "probes": probes,
                "components": {"real": info.real, "stub": info.stub},
                "known_finding_hits": kh,
                "world": wname,
                "worker_processes": workers,
                "stopped_by_wall_clock_cap": timed_out,
                "batch_digest": format!("{digest:016x}"),
                "replay": replay_path,
            },
            "assumptions": info.assumptions,
            "wall_s": wall,
            "violations": violations,
        });
        if let Some(dir) = std::path::Path::new(path).parent() {
            let _ = std::fs::create_dir_all(dir);
        }
        if let Err(e) = std::fs::write(path, serde_json::to_string_pretty(&ev).unwrap()) {
            report.line(&format!("HARNESS-ERROR: cannot write evidence {path}: {e}"));
            return 2;
        }
    }
    report.line(&format!(
        "done: runs={} nontrivial={} distinct={} wall={:.1}s digest={:016x}{}",
        total_runs,
        nontrivial,
        fps.len(),
        wall,
        digest,
        if timed_out { " (stopped by wall-clock cap)" } else { "" }
    ));
    if args.log_digest {
        report.line(&format!("DIGEST {digest:016x}"));
    }
    if exit == 0 && !missing.is_empty() {
        report.line(&format!(
            "HARNESS-ERROR: required probes stayed at zero: {} (workload or fault mix is wrong)",
            missing.join(", ")
        ));
        return 2;
    }
    exit
}

fn confirm_replay(path: &str) -> Result<bool, String> {
    let exe = std::env::current_exe().map_err(|e| e.to_string())?;
    let out = std::process::Command::new(exe)
        .arg("--replay")
        .arg(path)
        .arg("--confirm")
        .output()
        .map_err(|e| e.to_string())?;
    Ok(out.status.code() == Some(1))
}

/// Delta debugging over the explicit trace. A candidate is kept only if the same clause at the
/// same site with the same signature fails again.
pub fn minimise<W: World>(
    world: &Arc<W>,
    prop: &str,
    trace: W::Trace,
    v: Violation,
    known: &Arc<Known>,
) -> (W::Trace, Violation, u64) {
    let mut cur = trace;
    let mut cur_v = v;
    let mut tried = 0u64;
    let started = Instant::now();
    let mut seen: BTreeSet<u64> = BTreeSet::new();
    'outer: loop {
        if tried > 20_000 || started.elapsed().as_secs() > 120 {
            break;
        }
        for cand in world.shrink(&cur) {
            let key = rng::fnv1a(serde_json::to_string(&cand).unwrap_or_default().as_bytes());
            if !seen.insert(key) {
                continue;
            }
            tried += 1;
            let out = exec_trace(world, prop, &cand, known);
            if let Err(v2) = out.result {
                if v2.same_class(&cur_v) {
                    cur = cand;
                    cur_v = v2;
                    continue 'outer;
                }
            }
            if tried > 20_000 || started.elapsed().as_secs() > 120 {
                break 'outer;
            }
        }
        break;
    }
    (cur, cur_v, tried)
}

/// `--replay FILE`: generation is bypassed; a replay is a pure function of the file and the code.
pub fn run_replay<W: World>(world: W, file: &ReplayFile, known_path: &str, report: &Report, confirm: bool) -> i32 {
    let world = Arc::new(world);
    let known = Arc::new(Known::load(known_path).unwrap_or_default());
    let trace: W::Trace = match serde_json::from_value(file.trace.clone()) {
        Ok(t) => t,
        Err(e) => {
            report.line(&format!("HARNESS-ERROR: replay file does not parse as a {} trace: {e}", world.name()));
            return 2;
        }
    };
    let out = exec_trace(&world, &file.property, &trace, &known);
    match out.result {
        Err(v) => {
            if confirm {
                return if v.same_class(&file.violation) { 1 } else { 3 };
            }
            report.line(&format!(
                "replay: [{}] {} @{} step {} :: {}",
                v.clause, v.signature, v.site, v.step, v.message
            ));
            if known.find(&v).is_some() {
                report.line(&format!("KNOWN-FINDING: property={} clause={} (replayed)", v.property, v.clause));
                return 0;
            }
            report.line(&format!("VIOLATION property={} replay=(this file)", file.property));
            1
        }
        Ok(()) => {
            if !confirm {
                report.line("replay: no clause failed");
            }
            0
        }
    }
}

/// helpers for shrinkers -------------------------------------------------------------------

/// all variants of `xs` with one contiguous chunk removed (halves first, then single items)
pub fn drop_chunks<T: Clone>(xs: &[T]) -> Vec<Vec<T>> {
    let n = xs.len();
    let mut out = Vec::new();
    if n == 0 {
        return out;
    }
    let mut size = n / 2;
    while size >= 1 {
        let mut start = 0;
        while start + size <= n {
            let mut v = Vec::with_capacity(n - size);
            v.extend_from_slice(&xs[..start]);
            v.extend_from_slice(&xs[start + size..]);
            out.push(v);
            start += size;
        }
        if size == 1 {
            break;
        }
        size /= 2;
    }
    out
}
