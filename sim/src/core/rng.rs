//! The only entropy in a run: splitmix64 for seed derivation, xoshiro256** for the stream.

pub fn splitmix64(x: u64) -> u64 {
    let mut z = x.wrapping_add(0x9E37_79B9_7F4A_7C15);
    z = (z ^ (z >> 30)).wrapping_mul(0xBF58_476D_1CE4_E5B9);
    z = (z ^ (z >> 27)).wrapping_mul(0x94D0_49BB_1331_11EB);
    z ^ (z >> 31)
}

/// FNV-1a, used to fold a world name into the batch seed and for fingerprints (no RandomState).
pub fn fnv1a(bytes: &[u8]) -> u64 {
    let mut h: u64 = 0xcbf2_9ce4_8422_2325;
    for b in bytes {
        h ^= *b as u64;
        h = h.wrapping_mul(0x0000_0100_0000_01B3);
    }
    h
}

pub fn run_seed(batch_seed: u64, world: &str, index: u64) -> u64 {
    splitmix64(splitmix64(batch_seed ^ fnv1a(world.as_bytes())).wrapping_add(index))
}

#[derive(Clone, Debug)]
pub struct Rng {
    s: [u64; 4],
}

impl Rng {
    pub fn new(seed: u64) -> Self {
        let mut x = seed;
        let mut s = [0u64; 4];
        for slot in s.iter_mut() {
            x = splitmix64(x);
            *slot = x;
        }
        if s == [0, 0, 0, 0] {
            s[0] = 1;
        }
        Rng { s }
    }

    pub fn next_u64(&mut self) -> u64 {
        let result = self.s[1].wrapping_mul(5).rotate_left(7).wrapping_mul(9);
        let t = self.s[1] << 17;
        self.s[2] ^= self.s[0];
        self.s[3] ^= self.s[1];
        self.s[1] ^= self.s[2];
        self.s[0] ^= self.s[3];
        self.s[2] ^= t;
        self.s[3] = self.s[3].rotate_left(45);
        result
    }

    /// uniform in 0..n (n > 0)
    pub fn below(&mut self, n: u64) -> u64 {
        debug_assert!(n > 0);
        // multiply-shift; bias is irrelevant at these sizes
        ((self.next_u64() as u128 * n as u128) >> 64) as u64
    }

    pub fn usize(&mut self, n: usize) -> usize {
        self.below(n as u64) as usize
    }

    /// uniform in lo..=hi
    pub fn range(&mut self, lo: i64, hi: i64) -> i64 {
        debug_assert!(lo <= hi);
        lo + self.below((hi - lo + 1) as u64) as i64
    }

    /// true with probability num/den
    pub fn chance(&mut self, num: u64, den: u64) -> bool {
        self.below(den) < num
    }

    pub fn pick<'a, T>(&mut self, xs: &'a [T]) -> &'a T {
        &xs[self.usize(xs.len())]
    }

    /// index drawn according to integer weights
    pub fn weighted(&mut self, weights: &[u32]) -> usize {
        let total: u64 = weights.iter().map(|w| *w as u64).sum();
        let mut x = self.below(total.max(1));
        for (i, w) in weights.iter().enumerate() {
            if x < *w as u64 {
                return i;
            }
            x -= *w as u64;
        }
        weights.len() - 1
    }

    pub fn shuffle<T>(&mut self, xs: &mut [T]) {
        for i in (1..xs.len()).rev() {
            let j = self.usize(i + 1);
            xs.swap(i, j);
        }
    }
}
