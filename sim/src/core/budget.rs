//! Bounded liveness without wall-clock: every call-back from library code into the harness
//! (clock shim, fs shim, rule action closures, custom functions) spends one unit of the
//! current step budget; at zero the call unwinds with `StepBudgetExceeded`.

use std::cell::Cell;

pub struct StepBudgetExceeded;

thread_local! {
    static BUDGET: Cell<Option<u64>> = const { Cell::new(None) };
    static SPENT: Cell<u64> = const { Cell::new(0) };
}

pub fn tick() {
    SPENT.with(|s| s.set(s.get() + 1));
    BUDGET.with(|b| {
        if let Some(n) = b.get() {
            if n == 0 {
                b.set(None);
                std::panic::panic_any(StepBudgetExceeded);
            }
            b.set(Some(n - 1));
        }
    })
}

/// Run `f` under a budget of `n` call-backs. Err(()) if it was exhausted.
pub fn with_budget<R>(n: u64, f: impl FnOnce() -> R) -> Result<R, Box<dyn std::any::Any + Send>> {
    BUDGET.with(|b| b.set(Some(n)));
    let r = std::panic::catch_unwind(std::panic::AssertUnwindSafe(f));
    BUDGET.with(|b| b.set(None));
    r
}

pub fn spent() -> u64 {
    SPENT.with(|s| s.get())
}
