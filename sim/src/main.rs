//! simrun — deterministic simulation driver for rust-rule-engine.
//!
//!   simrun check <PROPERTY> [--tier quick|thorough] [--seed N] [--runs N] [--workers N]
//!                           [--max-secs N] [--evidence FILE] [--digest]
//!   simrun --replay FILE [--confirm]
//!
//! Exit 0: every clause held on every run (KNOWN-FINDING lines allowed); exit 1: a
//! `VIOLATION property=<id> replay=<path>` line was printed; exit 2: harness error.

mod core;
mod worlds;

use crate::core::{run_batch, run_replay, run_worker, BatchArgs, ReplayFile, Report, Tier, WorkerArgs, DEFAULT_SEED};

fn verif_root() -> String {
    std::env::var("VERIF_ROOT").unwrap_or_else(|_| "/verif".to_string())
}

macro_rules! dispatch {
    ($prop:expr, $f:ident, $($arg:expr),*) => {
        match $prop {
            "C14" => $f(worlds::join::JoinWorld, $($arg),*),
            "C13" => $f(worlds::watermark::WatermarkWorld, $($arg),*),
            "C12" => $f(worlds::window::WindowWorld, $($arg),*),
            "C20" => $f(worlds::store::StoreWorld, $($arg),*),
            "C07" => $f(worlds::agenda::AgendaWorld, $($arg),*),
            "C06" => $f(worlds::rete::ReteWorld, $($arg),*),
            "C02" => $f(worlds::fwd::FwdWorld, $($arg),*),
            "C09" | "C10" | "C11" => $f(worlds::bwd::BwdWorld, $($arg),*),
            other => {
                eprintln!("no simulation world serves property {other}");
                2
            }
        }
    };
}

fn main() {
    let args: Vec<String> = std::env::args().skip(1).collect();
    let report = Report::take_over_stdio();
    // hooked and un-hooked monotonic reads share one base (core/clock.rs, seam S1d)
    let _ = std::thread::spawn(crate::core::clock::init_base).join();
    // library panics are caught and judged; keep them off the (already silenced) stderr
    if std::env::var("VERIF_KEEP_STDIO").is_err() {
        std::panic::set_hook(Box::new(|_| {}));
    }
    let code = real_main(&args, &report);
    std::process::exit(code);
}

fn real_main(args: &[String], report: &Report) -> i32 {
    let root = verif_root();
    let known_path = format!("{root}/known_findings.json");
    let mut i = 0;
    let mut positional: Vec<String> = Vec::new();
    let mut tier = match std::env::var("VERIF_TIER").ok().as_deref() {
        Some("thorough") => Tier::Thorough,
        _ => Tier::Quick,
    };
    let mut tier_from_cli = false;
    let mut seed = std::env::var("VERIF_SEED")
        .ok()
        .and_then(|s| s.trim().parse::<u64>().ok())
        .unwrap_or(DEFAULT_SEED);
    let mut runs = None;
    let mut workers = std::thread::available_parallelism().map(|n| n.get()).unwrap_or(8).min(16);
    let mut max_secs = None;
    let mut evidence = None;
    let mut replay = None;
    let mut confirm = false;
    let mut digest = false;
    let mut stride = 1u64;
    let mut offset = 0u64;
    let mut shared = String::new();
    let mut out = String::new();
    while i < args.len() {
        let a = args[i].as_str();
        let mut val = || {
            i += 1;
            args.get(i).cloned().unwrap_or_default()
        };
        match a {
            "--tier" => {
                tier = if val() == "thorough" { Tier::Thorough } else { Tier::Quick };
                tier_from_cli = true;
            }
            "--seed" => seed = val().parse().unwrap_or(DEFAULT_SEED),
            "--runs" => runs = val().parse().ok(),
            "--workers" => workers = val().parse().unwrap_or(workers).max(1),
            "--max-secs" => max_secs = val().parse().ok(),
            "--evidence" => evidence = Some(val()),
            "--replay" => replay = Some(val()),
            "--confirm" => confirm = true,
            "--digest" => digest = true,
            "--stride" => stride = val().parse().unwrap_or(1),
            "--offset" => offset = val().parse().unwrap_or(0),
            "--shared" => shared = val(),
            "--out" => out = val(),
            _ => positional.push(a.to_string()),
        }
        i += 1;
    }
    let _ = tier_from_cli;

    if let Some(path) = replay {
        let text = match std::fs::read_to_string(&path) {
            Ok(t) => t,
            Err(e) => {
                report.line(&format!("HARNESS-ERROR: cannot read {path}: {e}"));
                return 2;
            }
        };
        let file: ReplayFile = match serde_json::from_str(&text) {
            Ok(f) => f,
            Err(e) => {
                report.line(&format!("HARNESS-ERROR: {path} is not a replay file: {e}"));
                return 2;
            }
        };
        let prop = file.property.clone();
        return dispatch!(prop.as_str(), run_replay, &file, &known_path, report, confirm);
    }

    if positional.first().map(|s| s.as_str()) == Some("worker") && positional.len() >= 2 {
        let prop = positional[1].clone();
        let wargs = WorkerArgs {
            prop: prop.clone(),
            tier,
            seed,
            runs: runs.unwrap_or(0),
            stride,
            offset,
            max_secs: max_secs.unwrap_or(600),
            shared_path: shared,
            out_path: out,
            known_path,
        };
        return dispatch!(prop.as_str(), run_worker, &wargs);
    }

    if positional.first().map(|s| s.as_str()) != Some("check") || positional.len() < 2 {
        report.line("usage: simrun check <PROPERTY> [--tier quick|thorough] ... | simrun --replay FILE");
        return 2;
    }
    let prop = positional[1].clone();
    let bargs = BatchArgs {
        prop: prop.clone(),
        tier,
        seed,
        runs,
        workers,
        max_secs: max_secs.unwrap_or(match tier {
            Tier::Quick => 150,
            Tier::Thorough => 1500,
        }),
        evidence_path: evidence.or_else(|| Some(format!("{root}/evidence/{prop}.json"))),
        known_path,
        replay_dir: format!("{root}/replays"),
        log_digest: digest,
    };
    dispatch!(prop.as_str(), run_batch, &bargs, report)
}
