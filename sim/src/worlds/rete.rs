//! World `rete` (C06): `IncrementalEngine` with GRL-loaded rules (through the cfg(rre_verif)
//! wrapper `GrlReteLoader::verif_convert_rule`, so the loader's real action closures run, wrapped
//! by a recorder). What an action sees and which activation fires first depend on `HashMap` /
//! `HashSet` iteration order (hash seam) and on the `Instant` of activations (clock seam).

use crate::core::rng::Rng;
use crate::core::{budget, clock, drop_chunks, hashseed, panic_text, Known, Obs, Tier, Violation, World, WorldInfo};
use rust_rule_engine::parser::grl::GRLParser;
use rust_rule_engine::rete::facts::{FactValue, TypedFacts};
use rust_rule_engine::rete::grl_loader::GrlReteLoader;
use rust_rule_engine::rete::network::TypedReteUlRule;
use rust_rule_engine::rete::propagation::IncrementalEngine;
use rust_rule_engine::rete::working_memory::FactHandle;
use rust_rule_engine::rete::ActionResult;
use serde::{Deserialize, Serialize};
use std::collections::{BTreeMap, BTreeSet};
use std::sync::{Arc, Mutex};

const PROP: &str = "C06";

#[derive(Clone, Debug, Serialize, Deserialize, PartialEq)]
pub struct Atom {
    pub field: u8, // 0 = a, 1 = b
    pub op: u8,    // 0 == 1 != 2 < 3 <= 4 > 5 >=
    pub lit: i64,
    /// the comparison is negated: `!(T.a > 1)`
    #[serde(default)]
    pub neg: bool,
}

/// a field value that stands for the float NaN (a legal number that compares false with everything, so that
/// `!(T.a > 1)` and `T.a <= 1` are different conditions)
const NAN: i64 = i64::MIN + 7;

thread_local! {
    /// text mode of the run on this thread (ReteTrace::text_b): field `b` holds a TEXT, one of six names
    static TEXT_B: std::cell::Cell<bool> = const { std::cell::Cell::new(false) };
}

/// the six texts field `b` takes in text mode — among them the names of the fact's own fields
const B_NAMES: [&str; 6] = ["x", "y", "a", "uid", "b", "zz"];

fn b_name(v: i64) -> &'static str {
    B_NAMES[v.rem_euclid(6) as usize]
}

/// field b as the engine gets it
fn fv_b(v: i64) -> FactValue {
    if TEXT_B.with(|t| t.get()) {
        FactValue::String(b_name(v).to_string())
    } else {
        fv(v)
    }
}

fn fv(v: i64) -> FactValue {
    if v == NAN {
        FactValue::Float(f64::NAN)
    } else {
        FactValue::Integer(v)
    }
}

#[derive(Clone, Debug, Serialize, Deserialize, PartialEq)]
pub enum RAction {
    Nothing,
    SetField(u8, i64),
    Retract,
}

#[derive(Clone, Debug, Serialize, Deserialize, PartialEq)]
pub struct RRule {
    pub ty: u8,
    pub salience: i32,
    pub no_loop: bool,
    /// disjunction of conjunctions: `A && B || C`
    pub cond: Vec<Vec<Atom>>,
    pub action: RAction,
}

#[derive(Clone, Debug, Serialize, Deserialize, PartialEq)]
pub enum ROp {
    Insert { ty: u8, a: i64, b: i64 },
    /// n-th handle ever issued (modulo), retracted ones included
    Update { h: usize, a: i64, b: i64 },
    Retract { h: usize },
    FireAll,
    Reset,
}

#[derive(Clone, Debug, Serialize, Deserialize)]
pub struct ReteTrace {
    pub hash_seed: u64,
    pub alt_hash_seeds: Vec<u64>,
    pub rules: Vec<RRule>,
    pub ops: Vec<ROp>,
    /// ns the monotonic clock moves after each read, cyclic (all zero = stalled)
    pub mono_ticks: Vec<u32>,
    /// the first rule is loaded a second time after all the others (the same GRL text again: a reloaded file);
    /// semantically it is still one rule
    #[serde(default)]
    pub reload: bool,
    /// field `b` holds a text (one of six names, the fact's own field names among them), compared with == / !=
    #[serde(default)]
    pub text_b: bool,
}

pub struct ReteWorld;

/// fact type names: one is a prefix of the next (a key-matching shortcut by prefix would confuse them)
fn tname(ty: u8) -> &'static str {
    ["T", "Tx", "Txy"][ty as usize % 3]
}

fn op_str(op: u8) -> &'static str {
    ["==", "!=", "<", "<=", ">", ">="][op as usize % 6]
}

fn field_str(f: u8) -> &'static str {
    if f % 2 == 0 {
        "a"
    } else {
        "b"
    }
}

fn atom_holds(at: &Atom, a: i64, b: i64) -> bool {
    let v = if at.field % 2 == 0 { a } else { b };
    if at.field % 2 == 1 && TEXT_B.with(|t| t.get()) {
        // text mode: field b is compared as a text, with == and != only
        let eq = b_name(v) == b_name(at.lit);
        return (if at.op % 2 == 0 { eq } else { !eq }) != at.neg;
    }
    // NaN is unequal to everything and neither below nor above anything
    let plain = if v == NAN {
        at.op % 6 == 1
    } else {
        match at.op % 6 {
            0 => v == at.lit,
            1 => v != at.lit,
            2 => v < at.lit,
            3 => v <= at.lit,
            4 => v > at.lit,
            _ => v >= at.lit,
        }
    };
    plain != at.neg
}

fn cond_holds(r: &RRule, a: i64, b: i64) -> bool {
    r.cond.iter().any(|conj| conj.iter().all(|at| atom_holds(at, a, b)))
}

fn grl_of(i: usize, r: &RRule) -> String {
    let ty = tname(r.ty).to_string();
    let cond = r
        .cond
        .iter()
        .map(|conj| {
            conj.iter()
                .map(|at| {
                    let (op, lit) = if at.field % 2 == 1 && TEXT_B.with(|t| t.get()) { (op_str(at.op % 2), format!("\"{}\"", b_name(at.lit))) } else { (op_str(at.op), at.lit.to_string()) };
                    if at.neg {
                        format!("!({ty}.{} {op} {lit})", field_str(at.field))
                    } else {
                        format!("{ty}.{} {op} {lit}", field_str(at.field))
                    }
                })
                .collect::<Vec<_>>()
                .join(" && ")
        })
        .collect::<Vec<_>>()
        .join(" || ");
    let action = match &r.action {
        RAction::Nothing => "Log(\"fired\");".to_string(),
        RAction::SetField(f, v) if *f % 2 == 1 && TEXT_B.with(|t| t.get()) => format!("{ty}.b = \"{}\";", b_name(*v)),
        RAction::SetField(f, v) => format!("{ty}.{} = {v};", field_str(*f)),
        RAction::Retract => format!("retract(${ty});"),
    };
    format!(
        "rule \"R{i}\" salience {} {}{{\n    when\n        {cond}\n    then\n        {action}\n}}\n",
        r.salience,
        if r.no_loop { "no-loop " } else { "" }
    )
}

#[derive(Clone, Debug)]
struct Firing {
    rule: usize,
    handle: Option<u64>,
    /// the matched fact's fields as the engine showed them to the action
    seen: Option<(i64, i64, i64)>, // a, b, uid
    retracts: Vec<u64>,
    retract_by_type: usize,
}

#[derive(Clone, Debug)]
struct MFact {
    ty: u8,
    a: i64,
    b: i64,
    uid: i64,
    live: bool,
    /// contents certain (written by the client and not touched by a firing since)
    known: bool,
    /// step of the client's last insert/update of this fact
    last_write: usize,
}

fn viol(clause: &str, site: &str, sig: &str, msg: String, step: usize) -> Violation {
    Violation::new(PROP, clause, site, sig, msg, step)
}

fn int_of(v: Option<&FactValue>) -> Option<i64> {
    match v {
        Some(FactValue::Integer(i)) => Some(*i),
        Some(FactValue::String(s)) if TEXT_B.with(|t| t.get()) => B_NAMES.iter().position(|n| n == s).map(|p| p as i64),
        Some(FactValue::Float(f)) if f.is_nan() => Some(NAN),
        Some(FactValue::Float(f)) if f.fract() == 0.0 => Some(*f as i64),
        _ => None,
    }
}

fn build(t: &ReteTrace, log: &Arc<Mutex<Vec<Firing>>>) -> Result<IncrementalEngine, String> {
    let mut engine = IncrementalEngine::new();
    let mut text: String = t.rules.iter().enumerate().map(|(i, r)| grl_of(i, r)).collect();
    let reload = t.reload && !t.rules.is_empty();
    if reload {
        text.push_str(&grl_of(0, &t.rules[0]));
    }
    let parsed = GRLParser::parse_rules(&text).map_err(|e| format!("GRL parse: {e}\n{text}"))?;
    if parsed.len() != t.rules.len() + reload as usize {
        return Err(format!("parser returned {} rules for {}", parsed.len(), t.rules.len()));
    }
    for (i, rule) in parsed.into_iter().enumerate() {
        // the reloaded copy of the first rule is the first rule
        let i = if i == t.rules.len() { 0 } else { i };
        let converted: TypedReteUlRule = GrlReteLoader::verif_convert_rule(rule).map_err(|e| format!("convert: {e}"))?;
        let ty = tname(t.rules[i].ty).to_string();
        let inner = converted.action.clone();
        let log = log.clone();
        let ty2 = ty.clone();
        let wrapped = TypedReteUlRule {
            name: converted.name.clone(),
            node: converted.node,
            priority: converted.priority,
            no_loop: converted.no_loop,
            action: Arc::new(move |facts: &mut TypedFacts, results: &mut rust_rule_engine::rete::ActionResults| {
                budget::tick();
                let handle = facts.get_fact_handle(&ty2).map(|h| h.id());
                let seen = handle.and_then(|h| {
                    let g = |f: &str| int_of(facts.get(&format!("{ty2}.{h}.{f}")));
                    match (g("a"), g("b"), g("uid")) {
                        (Some(a), Some(b), Some(u)) => Some((a, b, u)),
                        _ => None,
                    }
                });
                let before = results.results.len();
                inner(facts, results);
                let mut retracts = Vec::new();
                let mut by_type = 0;
                for r in &results.results[before..] {
                    match r {
                        ActionResult::Retract(h) => retracts.push(h.id()),
                        ActionResult::RetractByType(_) => by_type += 1,
                        _ => {}
                    }
                }
                log.lock().unwrap().push(Firing { rule: i, handle, seen, retracts, retract_by_type: by_type });
            }),
        };
        engine.add_rule(wrapped, vec![ty]);
    }
    Ok(engine)
}

/// One pass of the trace under the hash seed of the current thread.
fn run_pass(t: &ReteTrace, obs: &mut Obs, primary: bool) -> Result<(), Violation> {
    TEXT_B.with(|x| x.set(t.text_b));
    clock::install(1_700_000_000_000);
    clock::set_mono_tick_pattern(t.mono_ticks.clone());
    let log: Arc<Mutex<Vec<Firing>>> = Arc::new(Mutex::new(Vec::new()));
    let mut engine = match build(t, &log) {
        Ok(e) => e,
        Err(e) => return Err(viol("harness.setup", "GrlReteLoader", "rules-do-not-load", e, 0)),
    };
    let all_noop = t.rules.iter().all(|r| r.action == RAction::Nothing);
    let all_no_loop = t.rules.iter().all(|r| r.no_loop);
    let mut facts: Vec<MFact> = Vec::new(); // index = issue order; handle ids in `ids`
    let mut ids: Vec<u64> = Vec::new();
    let mut fired_ever: BTreeSet<usize> = BTreeSet::new();
    let mut fired_since_reset: BTreeSet<usize> = BTreeSet::new();
    let mut total_firings = 0usize;
    let mut stale_pending = false;
    // step of the most recent fire_all (only fire_all consumes activations)
    let mut last_fire_all: Option<usize> = None;
    for (step, op) in t.ops.iter().enumerate() {
        match op {
            ROp::Insert { ty, a, b } => {
                let uid = 1000 + facts.len() as i64;
                let mut d = TypedFacts::new();
                d.set("a", fv(*a));
                d.set("b", fv_b(*b));
                d.set("uid", uid);
                let h = engine.insert(tname(*ty).to_string(), d);
                if let Some(mx) = ids.iter().max() {
                    if h.id() <= *mx {
                        return Err(viol("wm.handles-fresh", "WorkingMemory::insert", "handle-not-fresh", format!("insert returned handle {} after {} had been issued", h.id(), mx), step));
                    }
                }
                ids.push(h.id());
                facts.push(MFact { ty: *ty, a: *a, b: *b, uid, live: true, known: true, last_write: step });
            }
            ROp::Update { h, a, b } => {
                if facts.is_empty() {
                    continue;
                }
                let k = h % facts.len();
                let mut d = TypedFacts::new();
                d.set("a", fv(*a));
                d.set("b", fv_b(*b));
                d.set("uid", facts[k].uid);
                let was_sat: Vec<bool> = t.rules.iter().map(|r| r.ty == facts[k].ty && cond_holds(r, facts[k].a, facts[k].b)).collect();
                let r = engine.update(FactHandle::new(ids[k]), d);
                if facts[k].live {
                    if r.is_err() {
                        return Err(viol("wm.views", "IncrementalEngine::update", "update-of-live-fact-failed", format!("update of live handle {} failed: {r:?}", ids[k]), step));
                    }
                    facts[k].a = *a;
                    facts[k].b = *b;
                    facts[k].known = true;
                    facts[k].last_write = step;
                    let now_sat: Vec<bool> = t.rules.iter().map(|r| r.ty == facts[k].ty && cond_holds(r, *a, *b)).collect();
                    if was_sat.iter().zip(&now_sat).any(|(w, n)| *w && !*n) {
                        stale_pending = true;
                        obs.count("probe.update_invalidates_a_pending_activation");
                    }
                } else if r.is_ok() {
                    return Err(viol("wm.views", "IncrementalEngine::update", "update-of-retracted-fact-succeeded", format!("update of retracted handle {} succeeded", ids[k]), step));
                }
            }
            ROp::Retract { h } => {
                if facts.is_empty() {
                    continue;
                }
                let k = h % facts.len();
                let r = engine.retract(FactHandle::new(ids[k]));
                if facts[k].live {
                    if r.is_err() {
                        return Err(viol("wm.views", "IncrementalEngine::retract", "retract-of-live-fact-failed", format!("retract of live handle {} failed: {r:?}", ids[k]), step));
                    }
                    facts[k].live = false;
                    obs.count("probe.client_retract");
                } else if r.is_ok() {
                    return Err(viol("wm.views", "IncrementalEngine::retract", "retract-of-retracted-fact-succeeded", format!("second retract of handle {} succeeded", ids[k]), step));
                }
            }
            ROp::Reset => {
                engine.reset();
                fired_since_reset.clear();
                obs.count("probe.reset");
            }
            ROp::FireAll => {
                log.lock().unwrap().clear();
                let fired_before: BTreeSet<usize> = fired_ever.clone();
                let budget_n = 4 * 1000 * ((t.rules.len() as u64) * (facts.len() as u64 + 1) + 1);
                let r = budget::with_budget(budget_n, || engine.fire_all());
                let fired_list = match r {
                    Ok(l) => l,
                    Err(p) => {
                        let sig = if p.downcast_ref::<budget::StepBudgetExceeded>().is_some() { "fire-all-did-not-return-within-step-budget" } else { "fire-all-panicked" };
                        return Err(viol("fire.returns", "IncrementalEngine::fire_all", sig, format!("fire_all did not return: {}", panic_text(&p)), step));
                    }
                };
                let firings: Vec<Firing> = log.lock().unwrap().clone();
                total_firings += firings.len();
                if primary {
                    // what the engine did goes into the run's fingerprint (determinism self-test)
                    obs.fp_str(&format!("{fired_list:?}|{:?}", firings.iter().map(|f| f.handle).collect::<Vec<_>>()));
                }
                // the set of rules satisfied by some live fact BEFORE the call (only meaningful when
                // actions leave working memory unchanged)
                let satisfied_before: BTreeSet<usize> = (0..t.rules.len())
                    .filter(|ri| facts.iter().any(|f| f.live && f.ty == t.rules[*ri].ty && cond_holds(&t.rules[*ri], f.a, f.b)))
                    .collect();
                let contents_certain = facts.iter().all(|f| f.known || !f.live);
                for (n, f) in firings.iter().enumerate() {
                    let rule = &t.rules[f.rule];
                    let hid = match f.handle {
                        Some(h) => h,
                        None => {
                            return Err(viol("fire.sound", "IncrementalEngine::fire_all", "fired-without-a-matched-fact", format!("R{} fired (firing {n}) without a matched fact handle for type T{}", f.rule, rule.ty), step));
                        }
                    };
                    let k = match ids.iter().position(|x| *x == hid) {
                        Some(k) => k,
                        None => {
                            return Err(viol("fire.sound", "IncrementalEngine::fire_all", "matched-handle-never-issued", format!("R{} fired for handle {hid}, which insert never returned", f.rule), step));
                        }
                    };
                    // fire.no-retracted
                    if !facts[k].live {
                        return Err(viol("fire.no-retracted", "IncrementalEngine::fire_all", "fired-for-a-retracted-fact", format!("R{} fired (firing {n}) for handle {hid}, which had been retracted", f.rule), step));
                    }
                    if facts[k].ty != rule.ty {
                        return Err(viol("fire.sound", "IncrementalEngine::fire_all", "matched-fact-of-another-type", format!("R{} (type T{}) fired for handle {hid} of type T{}", f.rule, rule.ty, facts[k].ty), step));
                    }
                    // fire.sound: condition true of the fact's contents at the moment of firing
                    let (a, b) = match f.seen {
                        Some((a, b, uid)) => {
                            if uid != facts[k].uid {
                                return Err(viol("wm.views", "WorkingMemory::to_typed_facts", "handle-prefixed-view-shows-another-fact", format!("the view handed to R{} shows uid {uid} under handle {hid}, whose fact has uid {}", f.rule, facts[k].uid), step));
                            }
                            if facts[k].known && (a, b) != (facts[k].a, facts[k].b) {
                                return Err(viol("wm.views", "WorkingMemory::to_typed_facts", "handle-prefixed-view-differs-from-last-write", format!("the view handed to R{} shows ({a}, {b}) under handle {hid}; the client last wrote ({}, {})", f.rule, facts[k].a, facts[k].b), step));
                            }
                            (a, b)
                        }
                        None => {
                            if facts[k].known {
                                (facts[k].a, facts[k].b)
                            } else {
                                continue;
                            }
                        }
                    };
                    if !cond_holds(rule, a, b) {
                        let v = viol(
                            "fire.sound",
                            "IncrementalEngine::fire_all",
                            if stale_pending { "stale-activation-fired-after-update" } else { "fired-for-a-fact-that-does-not-satisfy" },
                            format!("R{} fired (firing {n}) for handle {hid} whose contents at that moment were a={a}, b={b}: the condition `{}` is false", f.rule, grl_of(f.rule, rule).lines().nth(2).unwrap_or("").trim()),
                            step,
                        );
                        if !obs.is_known(&v) {
                            return Err(v);
                        }
                    }
                    // effects of this firing on the model
                    for h in &f.retracts {
                        if let Some(kk) = ids.iter().position(|x| x == h) {
                            if facts[kk].live {
                                facts[kk].live = false;
                                obs.count("probe.action_retracted_matched_fact");
                            }
                        }
                    }
                    if f.retract_by_type > 0 {
                        // which fact "first of the type" is cannot be predicted: re-read liveness below
                        for ff in facts.iter_mut() {
                            ff.known = false;
                        }
                    }
                    if let RAction::SetField(..) = rule.action {
                        for ff in facts.iter_mut().filter(|ff| ff.ty == rule.ty) {
                            ff.known = false;
                        }
                        obs.count("probe.action_modified_facts");
                    }
                    fired_ever.insert(f.rule);
                }
                // the returned list is the list of firings
                let names: Vec<String> = firings.iter().map(|f| format!("R{}", f.rule)).collect();
                if fired_list != names {
                    return Err(viol("fire.complete", "IncrementalEngine::fire_all", "returned-list-differs-from-actions-run", format!("fire_all returned {fired_list:?} but the actions that ran were {names:?}"), step));
                }
                // fire.complete (actions leave working memory unchanged, all rules no-loop)
                if all_noop && all_no_loop && contents_certain {
                    let mut counts: BTreeMap<usize, usize> = BTreeMap::new();
                    for f in &firings {
                        *counts.entry(f.rule).or_insert(0) += 1;
                    }
                    for (ri, n) in &counts {
                        if *n > 1 || fired_since_reset.contains(ri) {
                            return Err(viol("fire.complete", "IncrementalEngine::fire_all", "no-loop-rule-fired-more-than-once", format!("no-loop rule R{ri} fired {n} time(s) in this call{}", if fired_since_reset.contains(ri) { " although it had already fired since the last reset" } else { "" }), step));
                        }
                        if !satisfied_before.contains(ri) {
                            let v = viol("fire.complete", "IncrementalEngine::fire_all", if stale_pending { "rule-fired-that-no-live-fact-satisfies-after-update" } else { "rule-fired-that-no-live-fact-satisfies" }, format!("R{ri} fired although no live fact satisfies it"), step);
                            if !obs.is_known(&v) {
                                return Err(v);
                            }
                        }
                    }
                    for ri in &satisfied_before {
                        // must fire: the rule has not fired since the last reset and an activation of it
                        // for a satisfying live fact is certainly pending — either the rule has never fired
                        // on this engine (no activation of it was ever consumed), or the client wrote that
                        // fact after the most recent fire_all (only fire_all consumes activations). Whether
                        // activations consumed before a reset come back by themselves is left open.
                        let fresh_activation = facts.iter().any(|f| f.live && f.ty == t.rules[*ri].ty && cond_holds(&t.rules[*ri], f.a, f.b) && last_fire_all.map_or(true, |l| f.last_write > l));
                        let never_fired = !fired_before.contains(ri);
                        if !counts.contains_key(ri) && !fired_since_reset.contains(ri) && (never_fired || fresh_activation) {
                            let sig = if never_fired { "satisfied-no-loop-rule-did-not-fire" } else { "satisfied-no-loop-rule-did-not-fire-after-reset" };
                            return Err(viol("fire.complete", "IncrementalEngine::fire_all", sig, format!("no-loop rule R{ri} is satisfied by a live fact, has not fired since the last reset and an activation of it is pending, yet fire_all did not fire it (fired {names:?})"), step));
                        }
                        if counts.contains_key(ri) {
                            obs.count("probe.complete_clause_rule_fired_once");
                            if !never_fired {
                                obs.count("probe.rule_fired_again_after_reset");
                            }
                        }
                    }
                    obs.count("probe.complete_clause_evaluated");
                }
                for f in &firings {
                    fired_since_reset.insert(f.rule);
                }
                stale_pending = false;
                last_fire_all = Some(step);
                // resynchronise contents (and, after RetractByType, liveness) from the engine
                for (k, ff) in facts.iter_mut().enumerate() {
                    if !ff.known {
                        match engine.working_memory().get(&FactHandle::new(ids[k])) {
                            Some(wf) => {
                                if let (Some(a), Some(b)) = (int_of(wf.data.get("a")), int_of(wf.data.get("b"))) {
                                    ff.a = a;
                                    ff.b = b;
                                    ff.known = true;
                                }
                            }
                            None => {
                                if firings.iter().any(|f| f.retract_by_type > 0) {
                                    ff.live = false;
                                }
                            }
                        }
                    }
                }
            }
        }
        // wm.views after every operation
        let wm = engine.working_memory();
        let live: BTreeSet<u64> = ids.iter().zip(&facts).filter(|(_, f)| f.live).map(|(i, _)| *i).collect();
        for (k, f) in facts.iter().enumerate() {
            let got = wm.get(&FactHandle::new(ids[k]));
            match (f.live, got) {
                (true, None) => return Err(viol("wm.views", "WorkingMemory::get", "live-fact-not-found-by-handle", format!("live handle {} is not found by get()", ids[k]), step)),
                (false, Some(_)) => return Err(viol("wm.views", "WorkingMemory::get", "retracted-fact-found-by-handle", format!("retracted handle {} is still found by get()", ids[k]), step)),
                (true, Some(wf)) => {
                    if wf.fact_type != tname(f.ty) || int_of(wf.data.get("uid")) != Some(f.uid) {
                        return Err(viol("wm.views", "WorkingMemory::get", "handle-resolves-to-another-fact", format!("handle {} resolves to {:?}", ids[k], wf.data.get("uid")), step));
                    }
                    if f.known && (int_of(wf.data.get("a")), int_of(wf.data.get("b"))) != (Some(f.a), Some(f.b)) {
                        return Err(viol("wm.views", "WorkingMemory::get", "contents-differ-from-last-write", format!("handle {} holds a={:?} b={:?}, the client last wrote a={} b={}", ids[k], wf.data.get("a"), wf.data.get("b"), f.a, f.b), step));
                    }
                }
                (false, None) => {}
            }
        }
        let all_h: BTreeSet<u64> = wm.get_all_handles().iter().map(|h| h.id()).collect();
        let all_f: BTreeSet<u64> = wm.get_all_facts().iter().map(|f| f.handle.id()).collect();
        if all_h != live || all_f != live || wm.get_all_handles().len() != live.len() || wm.get_all_facts().len() != live.len() {
            let sig = if all_h.difference(&live).next().is_some() || all_f.difference(&live).next().is_some() { "retracted-fact-in-full-listing" } else { "live-fact-missing-from-full-listing" };
            return Err(viol("wm.views", "WorkingMemory::get_all_facts", sig, format!("full listing {all_f:?} / handles {all_h:?}, live set {live:?}"), step));
        }
        for ty in 0..3u8 {
            let want: BTreeSet<u64> = ids.iter().zip(&facts).filter(|(_, f)| f.live && f.ty == ty).map(|(i, _)| *i).collect();
            let listed = wm.get_by_type(tname(ty));
            let got: BTreeSet<u64> = listed.iter().map(|f| f.handle.id()).collect();
            if got != want || listed.len() != want.len() {
                let sig = if got.difference(&want).next().is_some() { "retracted-or-foreign-fact-under-type" } else { "live-fact-missing-under-type" };
                return Err(viol("wm.views", "WorkingMemory::get_by_type", sig, format!("get_by_type(T{ty}) = {got:?}, live facts of that type {want:?}"), step));
            }
        }
    }
    if primary {
        obs.nontrivial = total_firings >= 2 && facts.len() >= 2;
        if facts.iter().any(|f| f.a.abs() >= 1_000_000_000) {
            obs.count("probe.values_of_magnitude_1e9_or_more");
        }
        if facts.len() >= 10 {
            obs.count("probe.working_memory_of_ten_or_more_facts");
        }
        obs.add("probe.firings", total_firings as u64);
    }
    clock::uninstall();
    Ok(())
}

impl World for ReteWorld {
    type Trace = ReteTrace;
    fn name(&self) -> &'static str {
        "rete"
    }
    fn info(&self, _prop: &str) -> WorldInfo {
        WorldInfo {
            level: "exploration",
            rule: "1-4 GRL rules (text -> GRLParser -> GrlReteLoader conversion) over one fact type each (<=3 types whose names are prefixes of one another: T, Tx, Txy), conditions in the \
                   typed core on 2 integer fields with literals and values in -2..3 (`A && B || C`), salience from 3 values, no-loop coin, actions none / set a field / \
                   retract($T); histories of <=10 insert / update / retract / fire_all / reset over <=6 facts, each fact with a unique \
                   uid; every history runs under its own hash seed and again under further hash seeds, with the activation clock \
                   advancing or stalled. Half of the histories have only no-op actions and only no-loop rules (fire.complete is judged \
                   there). Non-trivial iff >=2 firings and >=2 facts; distinct = fingerprint of the trace"
                .into(),
            real: vec!["IncrementalEngine", "WorkingMemory", "AdvancedAgenda", "GRLParser + GrlReteLoader (rule conversion and action closures)", "evaluate_rete_ul_node_typed / AlphaNode", "TMS (explicit justifications)"],
            stub: vec!["hash seed (getrandom seam)", "SimClock (monotonic, behind Activation::created_at)", "client", "recorder wrapped around the loader's action closures"],
            assumptions: vec![
                "conditions stay in the typed core (integer fields against integer literals) so that the truth of a condition is beyond dispute".into(),
                "what a firing writes back is not predicted: after a fire_all whose actions modify facts the model re-reads the contents of live handles from the engine (liveness is always predicted)".into(),
                "fire.complete demands a firing of a no-loop rule that has not fired since the last reset when an activation of it is certainly pending: the rule has never fired on this engine, or the client inserted/updated a satisfying fact after the most recent fire_all; whether activations consumed before a reset come back by themselves is left open; a second firing between resets is a violation".into(),
                "the matched fact's contents 'at the moment of firing' are read from the handle-prefixed view the engine hands to the action, cross-checked against the client's last write when that is certain".into(),
            ],
            hang_is_a_verdict: true,
            required_probes: vec![
                "probe.update_invalidates_a_pending_activation",
                "probe.client_retract",
                "probe.action_retracted_matched_fact",
                "probe.action_modified_facts",
                "probe.reset",
                "probe.complete_clause_evaluated",
                "probe.complete_clause_rule_fired_once",
                "probe.rule_fired_again_after_reset",
                "probe.alt_hash_seed_pass",
                "fault.clock_stalled",
            ],
            quick_runs: 120_000,
            thorough_runs: 2_000_000,
        }
    }

    fn generate(&self, _prop: &str, _tier: Tier, rng: &mut Rng) -> ReteTrace {
        let hash_seed = rng.next_u64();
        let alt_hash_seeds = vec![rng.next_u64(), rng.next_u64()];
        let ntypes = 1 + rng.usize(3) as u8;
        // magnitude (swarm): the same small spread of values and literals around 0, around an epoch-seconds
        // stamp, or around 10^12 (still exact as f64) — comparisons that go through floats lose nothing near zero
        let base: i64 = *rng.pick(&[0i64, 0, 0, 0, 1_700_000_000, 1_000_000_000_000]);
        let simple = rng.chance(1, 2); // no-op actions, all no-loop: fire.complete territory
        // one run in four: some comparisons are negated (`!(T.a > 1)`), and one run in two of those lets fields
        // hold NaN — the value for which a negated comparison and the "complementary" one differ
        let negs = rng.chance(1, 4);
        let nans = negs && rng.chance(1, 2);
        let nrules = 1 + rng.usize(4);
        let sal = [0i32, *rng.pick(&[0i32, 5]), *rng.pick(&[-3i32, 10])];
        let rules: Vec<RRule> = (0..nrules)
            .map(|_| {
                // 1-2 disjuncts of 1-2 atoms; one rule in six is a longer chain of alternatives instead:
                // 3-4 single equality tests (`T.a == 1 || T.a == 2 || T.b == 3`)
                let cond: Vec<Vec<Atom>> = if rng.chance(1, 6) {
                    (0..3 + rng.usize(2)).map(|_| vec![Atom { field: rng.below(2) as u8, op: 0, lit: (base + rng.range(-2, 3)), neg: false }]).collect()
                } else {
                    let nconj = 1 + rng.usize(2);
                    (0..nconj)
                        .map(|_| (0..1 + rng.usize(2)).map(|_| Atom { field: rng.below(2) as u8, op: rng.below(6) as u8, lit: (base + rng.range(-2, 3)), neg: negs && rng.chance(1, 3) }).collect())
                        .collect()
                };
                RRule {
                    ty: rng.below(ntypes as u64) as u8,
                    salience: *rng.pick(&sal),
                    no_loop: simple || rng.chance(5, 6),
                    cond,
                    action: if simple {
                        RAction::Nothing
                    } else {
                        match rng.usize(4) {
                            0 => RAction::Nothing,
                            1 | 2 => RAction::SetField(rng.below(2) as u8, (base + rng.range(-2, 3))),
                            _ => RAction::Retract,
                        }
                    },
                }
            })
            .collect();
        let nops = 2 + rng.usize(9);
        let mut ops = Vec::new();
        let mut inserted = 0;
        // one run in forty: a working memory of 10-30 facts before the history proper starts
        let many = rng.chance(1, 40);
        let hrange = if many { 36 } else { 6 };
        if many {
            for _ in 0..10 + rng.usize(21) {
                ops.push(ROp::Insert { ty: rng.below(ntypes as u64) as u8, a: (base + rng.range(-2, 3)), b: (base + rng.range(-2, 3)) });
            }
        }
        for _ in 0..nops {
            let w = rng.weighted(&[if inserted < 6 { 35 } else { 0 }, 20, 10, 25, 6]);
            ops.push(match w {
                0 => {
                    inserted += 1;
                    ROp::Insert { ty: rng.below(ntypes as u64) as u8, a: (base + rng.range(-2, 3)), b: (base + rng.range(-2, 3)) }
                }
                1 => ROp::Update { h: rng.usize(hrange), a: (base + rng.range(-2, 3)), b: (base + rng.range(-2, 3)) },
                2 => ROp::Retract { h: rng.usize(hrange) },
                3 => ROp::FireAll,
                _ => ROp::Reset,
            });
        }
        ops.push(ROp::FireAll);
        if nans {
            for o in ops.iter_mut() {
                if let ROp::Insert { a, b, .. } | ROp::Update { a, b, .. } = o {
                    if rng.chance(1, 4) {
                        *a = NAN;
                    }
                    if rng.chance(1, 6) {
                        *b = NAN;
                    }
                }
            }
        }
        let mono_ticks = match rng.usize(3) {
            0 => vec![0],
            1 => vec![0, 0, 0, 7],
            _ => vec![50],
        };
        // one run in ten with three or more rules over two or more types: the first rule (if no-loop) is loaded
        // again after the others
        let reload = rules.len() >= 3 && rules[0].no_loop && rules.iter().any(|r| r.ty != rules[0].ty) && rng.chance(1, 5);
        // one run in six (integer magnitude 0, no NaN): field b is a text
        let text_b = base == 0 && !nans && rng.chance(1, 6);
        let (mut rules, mut ops) = (rules, ops);
        if text_b {
            // the values of b are indices into the six names
            for r in rules.iter_mut() {
                for at in r.cond.iter_mut().flatten().filter(|at| at.field % 2 == 1) {
                    at.lit = at.lit.rem_euclid(6);
                }
                if let RAction::SetField(f, v) = &mut r.action {
                    if *f % 2 == 1 {
                        *v = v.rem_euclid(6);
                    }
                }
            }
            for o in ops.iter_mut() {
                if let ROp::Insert { b, .. } | ROp::Update { b, .. } = o {
                    *b = b.rem_euclid(6);
                }
            }
        }
        ReteTrace { hash_seed, alt_hash_seeds, rules, ops, mono_ticks, reload, text_b }
    }

    fn hash_seed(&self, t: &ReteTrace) -> u64 {
        t.hash_seed
    }

    fn run(&self, _prop: &str, t: &ReteTrace, obs: &mut Obs) -> Result<(), Violation> {
        if t.rules.is_empty() {
            return Ok(());
        }
        obs.faulty = true; // every run has a seeded hash order; the clock may stall as well
        if t.mono_ticks.iter().all(|x| *x == 0) {
            obs.count("fault.clock_stalled");
        }
        obs.fp_str(&serde_json::to_string(t).unwrap_or_default());
        if t.reload {
            obs.count("probe.first_rule_loaded_a_second_time");
        }
        if t.text_b {
            obs.count("probe.text_field_whose_values_name_the_fact_s_fields");
        }
        run_pass(t, obs, true)?;
        // the same history under further hash seeds must satisfy the same clauses
        for (k, hs) in t.alt_hash_seeds.iter().enumerate() {
            let t2 = t.clone();
            let r = hashseed::on_seeded_thread(*hs, move || {
                let mut o2 = Obs::new(Arc::new(Known::default()));
                let r = std::panic::catch_unwind(std::panic::AssertUnwindSafe(|| run_pass(&t2, &mut o2, false)));
                (r.map_err(|p| panic_text(&p)), o2.counters)
            });
            match r {
                Ok((Ok(Ok(())), _)) => obs.count("probe.alt_hash_seed_pass"),
                Ok((Ok(Err(mut v)), _)) => {
                    v.message = format!("[under alternative hash seed #{k} = {hs}] {}", v.message);
                    if !obs.is_known(&v) {
                        return Err(v);
                    }
                }
                Ok((Err(msg), _)) => {
                    return Err(viol("fire.returns", "IncrementalEngine", "panicked-under-alternative-hash-seed", format!("[under alternative hash seed #{k} = {hs}] library code panicked: {msg}"), 0));
                }
                Err(_) => {
                    return Err(viol("fire.returns", "IncrementalEngine", "panicked-under-alternative-hash-seed", format!("[under alternative hash seed #{k} = {hs}] run thread died"), 0));
                }
            }
        }
        Ok(())
    }

    fn shrink(&self, t: &ReteTrace) -> Vec<ReteTrace> {
        let mut out = Vec::new();
        if !t.alt_hash_seeds.is_empty() {
            out.push(ReteTrace { alt_hash_seeds: vec![], ..t.clone() });
            if t.alt_hash_seeds.len() > 1 {
                for s in &t.alt_hash_seeds {
                    out.push(ReteTrace { alt_hash_seeds: vec![*s], ..t.clone() });
                }
            }
        }
        for v in drop_chunks(&t.ops) {
            out.push(ReteTrace { ops: v, ..t.clone() });
        }
        if t.rules.len() > 1 {
            for i in 0..t.rules.len() {
                let mut c = t.clone();
                c.rules.remove(i);
                out.push(c);
            }
        }
        for i in 0..t.rules.len() {
            let r = &t.rules[i];
            let mut alts: Vec<RRule> = Vec::new();
            if r.cond.len() > 1 {
                for j in 0..r.cond.len() {
                    let mut b = r.clone();
                    b.cond.remove(j);
                    alts.push(b);
                }
            }
            for j in 0..r.cond.len() {
                if r.cond[j].len() > 1 {
                    for k in 0..r.cond[j].len() {
                        let mut b = r.clone();
                        b.cond[j].remove(k);
                        alts.push(b);
                    }
                }
            }
            if r.action != RAction::Nothing {
                alts.push(RRule { action: RAction::Nothing, ..r.clone() });
            }
            if r.salience != 0 {
                alts.push(RRule { salience: 0, ..r.clone() });
            }
            if r.ty != 0 {
                alts.push(RRule { ty: 0, ..r.clone() });
            }
            for b in alts {
                let mut c = t.clone();
                c.rules[i] = b;
                out.push(c);
            }
        }
        for i in 0..t.ops.len() {
            let alts: Vec<ROp> = match &t.ops[i] {
                ROp::Insert { ty, a, b } => {
                    let mut v = Vec::new();
                    if *ty != 0 {
                        v.push(ROp::Insert { ty: 0, a: *a, b: *b });
                    }
                    if *a != 0 {
                        v.push(ROp::Insert { ty: *ty, a: 0, b: *b });
                    }
                    if *b != 0 {
                        v.push(ROp::Insert { ty: *ty, a: *a, b: 0 });
                    }
                    v
                }
                ROp::Update { h, a, b } => {
                    let mut v = Vec::new();
                    if *h != 0 {
                        v.push(ROp::Update { h: 0, a: *a, b: *b });
                    }
                    if *a != 0 {
                        v.push(ROp::Update { h: *h, a: 0, b: *b });
                    }
                    if *b != 0 {
                        v.push(ROp::Update { h: *h, a: *a, b: 0 });
                    }
                    v
                }
                ROp::Retract { h } if *h != 0 => vec![ROp::Retract { h: 0 }],
                _ => vec![],
            };
            for a in alts {
                let mut c = t.clone();
                c.ops[i] = a;
                out.push(c);
            }
        }
        if t.mono_ticks != vec![50] {
            out.push(ReteTrace { mono_ticks: vec![50], ..t.clone() });
        }
        if t.hash_seed != 1 {
            out.push(ReteTrace { hash_seed: 1, ..t.clone() });
        }
        if t.reload {
            out.push(ReteTrace { reload: false, ..t.clone() });
        }
        out
    }
}
