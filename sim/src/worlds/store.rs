//! World `store` (C20): `StateStore` on the File backend over a real per-run scratch directory,
//! with the clock (checkpoint ids, TTL expiry) and every file-system call of the store behind
//! the simulator: I/O errors, short writes, EINTR, crashes before/after a call or after k bytes of
//! the checkpoint file, a crash half-way through the retention `remove_dir_all`, restarts (only
//! the directory survives), frozen / stepping-back / tick-on-read clocks.

use crate::core::rng::Rng;
use crate::core::{budget, clock, drop_chunks, panic_text, Obs, Tier, Violation, World, WorldInfo};
use rust_rule_engine::streaming::event::StreamEvent;
use rust_rule_engine::streaming::state::{StateBackend, StateConfig, StateStore, StatefulOperator};
use rust_rule_engine::types::Value;
use rust_rule_engine::verif_hooks::{self, FsDecision, FsOp};
use serde::{Deserialize, Serialize};
use std::cell::RefCell;
use std::collections::{BTreeMap, BTreeSet, HashMap};
use std::path::PathBuf;
use std::time::Duration;

const PROP: &str = "C20";
const CLOCK_BASE_MS: u64 = 1_700_000_000_000;
/// Key pools (swarm dimension `key_style`): plain; names that need JSON escaping / are empty / are not ASCII;
/// names that differ only in case or trailing white space; a dotted, a one-letter and a 300-character name.
fn key_name(style: u8, k: usize) -> String {
    match style {
        1 => ["", "a/b\"c\\d", "ключ\n\u{1}é"][k % 3].to_string(),
        2 => ["key", "KEY", "key "][k % 3].to_string(),
        3 => match k % 3 {
            0 => "k".to_string(),
            1 => "k.0".to_string(),
            _ => "k".repeat(300),
        },
        _ => ["k0", "k1", "k2"][k % 3].to_string(),
    }
}

/// TTLs are milliseconds in the trace; the two largest values stand for `Duration::MAX` and
/// `Duration::from_secs(1 << 61)` (more than 2^64 ms) — "never expires", written as a TTL
fn ttl_dur(ms: u64) -> Duration {
    match ms {
        u64::MAX => Duration::MAX,
        x if x == u64::MAX - 1 => Duration::from_secs(1 << 61),
        ms => Duration::from_millis(ms),
    }
}

fn bulk_key(i: usize) -> String {
    format!("bulk{i:05}")
}

type ProcFn = fn(&mut StateStore, &StreamEvent) -> rust_rule_engine::Result<Option<Value>>;

/// the processing function of the `StatefulOperator` wrapper: an event {k, v} is a put
fn proc_put(st: &mut StateStore, ev: &StreamEvent) -> rust_rule_engine::Result<Option<Value>> {
    let k = match ev.data.get("k") {
        Some(Value::String(s)) => s.clone(),
        _ => return Ok(None),
    };
    let v = ev.data.get("v").cloned().unwrap_or(Value::Null);
    st.put(k, v)?;
    Ok(None)
}

/// The store as the client holds it: directly, or inside a `StatefulOperator` (whose checkpoint/restore delegate)
enum Holder {
    Plain(StateStore),
    Wrapped(StatefulOperator<ProcFn>),
}

impl Holder {
    fn st(&self) -> &StateStore {
        match self {
            Holder::Plain(s) => s,
            Holder::Wrapped(o) => o.state(),
        }
    }
    fn st_mut(&mut self) -> &mut StateStore {
        match self {
            Holder::Plain(s) => s,
            Holder::Wrapped(o) => o.state_mut(),
        }
    }
    fn put(&mut self, key: String, v: Value) -> rust_rule_engine::Result<()> {
        match self {
            Holder::Plain(s) => s.put(key, v),
            Holder::Wrapped(o) => {
                let mut data = HashMap::new();
                data.insert("k".to_string(), Value::String(key));
                data.insert("v".to_string(), v);
                let mut ev = StreamEvent::with_timestamp("put", data, "client", 0);
                ev.id = "e".to_string();
                o.process(&ev).map(|_| ())
            }
        }
    }
    fn checkpoint(&mut self, name: String) -> rust_rule_engine::Result<String> {
        match self {
            Holder::Plain(s) => s.checkpoint(name),
            Holder::Wrapped(o) => o.checkpoint(name),
        }
    }
    fn restore(&mut self, id: &str) -> rust_rule_engine::Result<()> {
        match self {
            Holder::Plain(s) => s.restore(id),
            Holder::Wrapped(o) => o.restore(id),
        }
    }
}

#[derive(Clone, Debug, Serialize, Deserialize, PartialEq)]
pub enum Val {
    Int(i64),
    Float(f64),
    /// a float given by its bit pattern (the trace file is JSON itself: a float written as a decimal would not
    /// be the same float after the replay file has been read back by a reader that rounds)
    FloatBits(u64),
    /// the integer 1 wrapped in `depth` arrays (kind 0) or objects (kind 1) — a value nested more deeply than
    /// JSON readers like (written compactly: the trace file is JSON itself)
    Deep(u8, u8),
    Str(String),
    Bool(bool),
    Null,
    Expr(String),
    Arr(Vec<Val>),
    Obj(Vec<(String, Val)>),
}

impl Val {
    fn to_value(&self) -> Value {
        match self {
            Val::Int(i) => Value::Integer(*i),
            Val::Float(f) => Value::Number(*f),
            Val::FloatBits(b) => Value::Number(f64::from_bits(*b)),
            Val::Deep(depth, kind) => {
                let mut v = Value::Integer(1);
                for _ in 0..*depth {
                    v = if kind % 2 == 0 {
                        Value::Array(vec![v])
                    } else {
                        let mut m = HashMap::new();
                        m.insert("d".to_string(), v);
                        Value::Object(m)
                    };
                }
                v
            }
            Val::Str(s) => Value::String(s.clone()),
            Val::Bool(b) => Value::Boolean(*b),
            Val::Null => Value::Null,
            Val::Expr(s) => Value::Expression(s.clone()),
            Val::Arr(v) => Value::Array(v.iter().map(|x| x.to_value()).collect()),
            Val::Obj(v) => {
                let mut m = HashMap::new();
                for (k, x) in v {
                    m.insert(k.clone(), x.to_value());
                }
                Value::Object(m)
            }
        }
    }
}

/// strict equality: floats by bit pattern
fn same(a: &Value, b: &Value) -> bool {
    match (a, b) {
        (Value::Number(x), Value::Number(y)) => x.to_bits() == y.to_bits(),
        (Value::Array(x), Value::Array(y)) => x.len() == y.len() && x.iter().zip(y).all(|(p, q)| same(p, q)),
        (Value::Object(x), Value::Object(y)) => x.len() == y.len() && x.iter().all(|(k, p)| y.get(k).map_or(false, |q| same(p, q))),
        (Value::Number(_), _) | (Value::Array(_), _) | (Value::Object(_), _) => false,
        _ => a == b,
    }
}

#[derive(Clone, Copy, Debug, Serialize, Deserialize, PartialEq)]
pub enum ErrKind {
    Eio,
    Enospc,
    Eacces,
    Eintr,
}

impl ErrKind {
    fn kind(&self) -> std::io::ErrorKind {
        match self {
            ErrKind::Eio => std::io::ErrorKind::Other,
            ErrKind::Enospc => std::io::ErrorKind::StorageFull,
            ErrKind::Eacces => std::io::ErrorKind::PermissionDenied,
            ErrKind::Eintr => std::io::ErrorKind::Interrupted,
        }
    }
    fn name(&self) -> &'static str {
        match self {
            ErrKind::Eio => "fault.eio",
            ErrKind::Enospc => "fault.enospc",
            ErrKind::Eacces => "fault.eacces",
            ErrKind::Eintr => "fault.eintr",
        }
    }
}

#[derive(Clone, Debug, Serialize, Deserialize, PartialEq)]
pub enum FaultKind {
    /// the call returns this error and does nothing
    Err(ErrKind),
    /// a write accepts only k bytes (write_all carries on)
    ShortWrite(usize),
    /// a write accepts k bytes, the next call fails
    ShortWriteThenErr(usize, ErrKind),
    /// the process dies before the call is made
    CrashBefore,
    /// a write persists k bytes, then the process dies
    CrashAfterBytes(usize),
    /// remove_dir_all removed the file but not the directory when the process died
    CrashInsideRemoveDir,
    /// every read of the operation returns at most k bytes (legal for read(2): pipes, network file
    /// systems, signals) — multi-byte characters get split across reads
    ShortReads(usize),
    /// every write of the operation accepts at most k bytes (legal for write(2): pipes, network file systems,
    /// quotas) — write_all has to loop over the whole file
    ShortWrites(usize),
}

#[derive(Clone, Debug, Serialize, Deserialize, PartialEq)]
pub struct Fault {
    /// index of the fs-shim call within the operation it is attached to
    pub at_call: usize,
    pub kind: FaultKind,
}

#[derive(Clone, Copy, Debug, Serialize, Deserialize, PartialEq)]
pub enum Target {
    /// n-th acknowledged checkpoint (modulo how many there are)
    Acked(usize),
    /// n-th failed or interrupted attempt
    Broken(usize),
    Bogus,
    /// whatever `latest_checkpoint()` names
    Latest,
}

#[derive(Clone, Debug, Serialize, Deserialize, PartialEq)]
pub enum Op {
    Put(usize, Val),
    PutTtl(usize, Val, u64),
    Update(usize, Val),
    Delete(usize),
    Cleanup,
    Checkpoint(Option<Fault>),
    Restore(Target, Option<Fault>),
    Advance(u64),
    StepBack(u64),
    Read,
    Restart,
    /// `StateStore::clear()`
    Clear,
    /// n further puts under keys of their own (`bulk00000`…): kind 0 small integers, kind 1 one 40-character
    /// text each, kind 2 a single key holding a text of n × 16 bytes with multi-byte characters. Makes the
    /// checkpoint file longer than the 4 KiB / 8 KiB / 64 KiB buffers that I/O layers work in
    Bulk(usize, u8),
}

#[derive(Clone, Debug, Serialize, Deserialize)]
pub struct StoreTrace {
    pub hash_seed: u64,
    pub max_checkpoints: usize,
    /// Some(ms): the store is configured with enable_ttl and this default TTL (plain `put` then expires too)
    #[serde(default)]
    pub default_ttl: Option<u64>,
    /// Some(ms): the store is configured with auto_checkpoint = true and this checkpoint_interval — two
    /// configuration fields the pinned code never reads; an explicit checkpoint() must behave the same
    #[serde(default)]
    pub auto: Option<u64>,
    /// which key pool the three keys come from (see `key_name`)
    #[serde(default)]
    pub key_style: u8,
    /// checkpoint names: 0 unique per operation, 1 the same name every time, 2 a name with path separators
    #[serde(default)]
    pub name_style: u8,
    /// the client holds the store inside a `StatefulOperator` (puts go through `process`)
    #[serde(default)]
    pub wrapped: bool,
    pub ops: Vec<Op>,
    pub tick_pattern: Vec<u8>,
    /// Some(i): sweep every crash point (every shim call, every byte offset of the file) of the
    /// checkpoint at op index i instead of the single fault attached to it
    pub sweep_op: Option<usize>,
}

pub struct StoreWorld;

// ---------------------------------------------------------------------------------- SimDisk

struct SimCrash;

#[derive(Default)]
struct DiskState {
    plan: Option<Fault>,
    call: usize,
    crash_next: bool,
    then_err: Option<ErrKind>,
    log: Vec<FsOp>,
    fired: Vec<&'static str>,
    write_lens: Vec<usize>,
}

thread_local! {
    static DISK: RefCell<DiskState> = RefCell::new(DiskState::default());
    static KEY_STYLE: std::cell::Cell<u8> = std::cell::Cell::new(0);
}

fn disk_begin(plan: Option<Fault>) {
    DISK.with(|d| {
        *d.borrow_mut() = DiskState {
            plan,
            ..Default::default()
        }
    });
}

fn disk_end() -> DiskState {
    DISK.with(|d| std::mem::take(&mut *d.borrow_mut()))
}

fn install_disk() {
    verif_hooks::set_fs(Some(Box::new(|op: &FsOp| {
        budget::tick();
        DISK.with(|d| {
            let mut d = d.borrow_mut();
            let idx = d.call;
            d.call += 1;
            d.log.push(op.clone());
            if let FsOp::Write { len, .. } = op {
                d.write_lens.push(*len);
            }
            if d.crash_next {
                d.crash_next = false;
                d.fired.push("fault.crash_inside_write");
                drop(d);
                std::panic::panic_any(SimCrash);
            }
            if let Some(k) = d.then_err.take() {
                d.fired.push(k.name());
                return FsDecision::Fail(k.kind());
            }
            if let (Some(Fault { kind: FaultKind::ShortReads(k), .. }), FsOp::Read { len, .. }) = (&d.plan, op) {
                let k = (*k).clamp(1, (*len).max(1));
                d.fired.push("fault.short_read");
                return FsDecision::Short(k);
            }
            if let (Some(Fault { kind: FaultKind::ShortWrites(k), .. }), FsOp::Write { len, .. }) = (&d.plan, op) {
                if *len > 0 {
                    let k = (*k).clamp(1, *len);
                    if k < *len {
                        d.fired.push("fault.short_writes_throughout");
                    }
                    return FsDecision::Short(k);
                }
            }
            let fire = matches!(&d.plan, Some(f) if f.at_call == idx && !matches!(f.kind, FaultKind::ShortReads(_) | FaultKind::ShortWrites(_)));
            if !fire {
                return FsDecision::Proceed;
            }
            let f = d.plan.take().unwrap();
            match f.kind {
                FaultKind::Err(k) => {
                    d.fired.push(k.name());
                    FsDecision::Fail(k.kind())
                }
                FaultKind::ShortWrite(k) => match op {
                    FsOp::Write { len, .. } if *len > 0 => {
                        if k < *len {
                            d.fired.push("fault.short_write");
                        }
                        FsDecision::Short(k.clamp(1, *len))
                    }
                    _ => FsDecision::Proceed,
                },
                FaultKind::ShortWriteThenErr(k, e) => match op {
                    FsOp::Write { len, .. } if *len > 0 => {
                        let k = k.clamp(1, *len);
                        if k < *len {
                            d.fired.push("fault.short_write");
                            d.then_err = Some(e);
                        }
                        FsDecision::Short(k)
                    }
                    _ => {
                        d.fired.push(e.name());
                        FsDecision::Fail(e.kind())
                    }
                },
                FaultKind::CrashBefore => {
                    d.fired.push("fault.crash_before_call");
                    drop(d);
                    std::panic::panic_any(SimCrash);
                }
                FaultKind::CrashAfterBytes(k) => match op {
                    FsOp::Write { len, path } => {
                        let k = k.min(*len);
                        if k == 0 {
                            d.fired.push("fault.crash_inside_write");
                            drop(d);
                            std::panic::panic_any(SimCrash);
                        }
                        if k == *len {
                            // the whole buffer reached the file; the process dies right after
                            let _ = path;
                            d.crash_next = true;
                            d.fired.push("fault.crash_after_complete_write");
                            return FsDecision::Proceed;
                        }
                        d.crash_next = true;
                        FsDecision::Short(k)
                    }
                    _ => {
                        d.fired.push("fault.crash_before_call");
                        drop(d);
                        std::panic::panic_any(SimCrash);
                    }
                },
                FaultKind::CrashInsideRemoveDir => match op {
                    FsOp::RemoveDirAll(p) => {
                        let _ = std::fs::remove_file(p.join("state.json"));
                        d.fired.push("fault.crash_inside_remove_dir");
                        drop(d);
                        std::panic::panic_any(SimCrash);
                    }
                    _ => {
                        d.fired.push("fault.crash_before_call");
                        drop(d);
                        std::panic::panic_any(SimCrash);
                    }
                },
                FaultKind::ShortReads(_) | FaultKind::ShortWrites(_) => FsDecision::Proceed, // handled above, for every read / write
            }
        })
    })));
}

// ------------------------------------------------------------------------------------ model

#[derive(Clone, Debug)]
struct Entry {
    value: Value,
    /// earliest / latest admissible expiry instant (None = no TTL). Expired iff now > instant.
    exp_lo: Option<u64>,
    exp_hi: Option<u64>,
    ttl: Option<u64>,
    /// cleanup_expired ran while the entry was possibly expired (it may be physically gone), or the
    /// entry was adopted from an observation and its TTL is unknown
    maybe_removed: bool,
}

#[derive(Clone, Copy, PartialEq, Debug)]
enum Presence {
    Must,
    Maybe,
    Absent,
}

impl Entry {
    fn presence(&self, tmin: u64, tmax: u64) -> Presence {
        let p = match (self.exp_lo, self.exp_hi) {
            (Some(lo), Some(hi)) => {
                if tmin > hi {
                    Presence::Absent
                } else if tmax <= lo {
                    // expired iff now > instant: AT the earliest admissible expiry instant the entry is still there
                    Presence::Must
                } else {
                    Presence::Maybe
                }
            }
            _ => Presence::Must,
        };
        if self.maybe_removed && p == Presence::Must {
            Presence::Maybe
        } else {
            p
        }
    }
}

#[derive(Clone, Debug)]
struct Snap {
    must: BTreeMap<String, Value>,
    maybe: BTreeMap<String, Value>,
}

#[derive(Clone, Copy, PartialEq, Debug)]
enum Status {
    Acked,
    Failed,
    Interrupted,
}

#[derive(Clone, Debug)]
struct Ckpt {
    id: String,
    snap: Snap,
    status: Status,
    evicted: bool,
    /// eviction was attempted but the removal met a fault: may or may not still be there
    evict_uncertain: bool,
    op_index: usize,
    /// which store incarnation (restart count) acknowledged / attempted it
    incarnation: usize,
}

struct Model {
    live: BTreeMap<String, Entry>,
    ckpts: Vec<Ckpt>,
    /// ids acknowledged by the current incarnation, oldest first (retention list)
    incarnation: Vec<String>,
    restarts: usize,
}

fn viol(clause: &str, site: &str, sig: &str, msg: String, step: usize) -> Violation {
    Violation::new(PROP, clause, site, sig, msg, step)
}

fn snapshot_of(m: &Model, tmin: u64, tmax: u64) -> Snap {
    let mut s = Snap { must: BTreeMap::new(), maybe: BTreeMap::new() };
    for (k, e) in &m.live {
        match e.presence(tmin, tmax) {
            Presence::Must => {
                s.must.insert(k.clone(), e.value.clone());
            }
            Presence::Maybe => {
                s.maybe.insert(k.clone(), e.value.clone());
            }
            Presence::Absent => {}
        }
    }
    s
}

/// what the store shows right now
struct Seen {
    keys: Vec<String>,
    len: usize,
    gets: BTreeMap<String, Option<Value>>,
    contains: BTreeMap<String, bool>,
    tmin: u64,
    tmax: u64,
}

fn observe(store: &StateStore, extra: &[String]) -> Seen {
    clock::begin_call();
    let mut keys = store.keys();
    keys.sort();
    let len = store.len();
    let mut gets = BTreeMap::new();
    let mut contains = BTreeMap::new();
    let style = KEY_STYLE.with(|c| c.get());
    let mut universe: BTreeSet<String> = (0..3).map(|k| key_name(style, k)).collect();
    universe.extend(keys.iter().cloned());
    universe.extend(extra.iter().cloned());
    for k in &universe {
        gets.insert(k.clone(), store.get(k).unwrap_or(None));
        contains.insert(k.clone(), store.contains(k));
    }
    let reads = clock::shown_list();
    let now = clock::now_ms();
    let tmin = reads.iter().min().cloned().unwrap_or(now);
    let tmax = reads.iter().max().cloned().unwrap_or(now).max(now);
    Seen { keys, len, gets, contains, tmin, tmax }
}

/// three-valued comparison of the visible state with a snapshot
fn check_against(seen: &Seen, snap: &Snap, clause: &str, site: &str, what: &str, step: usize) -> Result<(), Violation> {
    for (k, v) in &snap.must {
        match seen.gets.get(k).cloned().flatten() {
            None => {
                return Err(viol(clause, site, "key-missing", format!("{what}: key {k} should read {v:?} but is absent (keys {:?})", seen.keys), step));
            }
            Some(got) => {
                if !same(&got, v) {
                    return Err(viol(clause, site, "value-differs", format!("{what}: key {k} reads {got:?}, expected {v:?}"), step));
                }
            }
        }
        if !seen.keys.contains(k) || seen.contains.get(k) != Some(&true) {
            return Err(viol(clause, site, "key-missing", format!("{what}: key {k} is readable but not listed by keys()/contains()"), step));
        }
    }
    for (k, got) in &seen.gets {
        if let Some(got) = got {
            match snap.must.get(k).or_else(|| snap.maybe.get(k)) {
                None => {
                    return Err(viol(clause, site, "extra-key", format!("{what}: key {k} reads {got:?} but should be absent"), step));
                }
                Some(v) => {
                    if !same(got, v) {
                        return Err(viol(clause, site, "value-differs", format!("{what}: key {k} reads {got:?}, expected {v:?}"), step));
                    }
                }
            }
        }
    }
    for k in &seen.keys {
        if !snap.must.contains_key(k) && !snap.maybe.contains_key(k) {
            return Err(viol(clause, site, "extra-key", format!("{what}: keys() lists {k} which should be absent"), step));
        }
    }
    let lo = snap.must.len();
    let hi = snap.must.len() + snap.maybe.len();
    if seen.len < lo || seen.len > hi {
        return Err(viol(clause, site, "len-differs", format!("{what}: len() is {}, expected {lo}..={hi}", seen.len), step));
    }
    Ok(())
}

fn new_store(dir: &PathBuf, max_checkpoints: usize, default_ttl: Option<u64>, auto: Option<u64>) -> StateStore {
    StateStore::with_config(StateConfig {
        backend: StateBackend::File { path: dir.clone() },
        max_checkpoints,
        auto_checkpoint: auto.is_some(),
        checkpoint_interval: Duration::from_millis(auto.unwrap_or(60_000)),
        enable_ttl: default_ttl.is_some(),
        default_ttl: Duration::from_millis(default_ttl.unwrap_or(3_600_000)),
        ..Default::default()
    })
}

/// Probe with a separate store object on the same directory (no fault plan active).
fn probe_restore(dir: &PathBuf, id: &str) -> Result<Seen, String> {
    disk_begin(None);
    let mut p = new_store(dir, 1000, None, None);
    let r = p.restore(id);
    let _ = disk_end();
    match r {
        Ok(()) => Ok(observe(&p, &[])),
        Err(e) => Err(format!("{e}")),
    }
}

fn probe_all(dir: &PathBuf, m: &Model, step: usize, obs: &mut Obs, after: &str) -> Result<(), Violation> {
    // latest record wins when an id was used twice (only when ids are not unique)
    for (i, c) in m.ckpts.iter().enumerate() {
        let reused_later = m.ckpts[i + 1..].iter().any(|d| d.id == c.id);
        match c.status {
            Status::Acked => {
                if c.evicted && !c.evict_uncertain {
                    continue;
                }
                match probe_restore(dir, &c.id) {
                    Ok(seen) => {
                        let clause = if after == "crash" || after == "failed checkpoint" { "crash.old-intact" } else { "restore.exact" };
                        let r = check_against(&seen, &c.snap, clause, "StateStore::restore", &format!("restore({}) of the checkpoint acknowledged at op {} ({after})", c.id, c.op_index), step);
                        if let Err(mut v) = r {
                            if reused_later {
                                v.signature = format!("{}-id-reused", v.signature);
                            }
                            return Err(v);
                        }
                        obs.count("probe.acked_checkpoint_probed_ok");
                    }
                    Err(e) => {
                        if c.evicted {
                            continue;
                        }
                        let clause = if after == "crash" || after == "failed checkpoint" { "crash.old-intact" } else { "restore.exact" };
                        return Err(viol(
                            clause,
                            "StateStore::restore",
                            if reused_later { "acked-checkpoint-unrestorable-id-reused" } else { "acked-checkpoint-unrestorable" },
                            format!("restore({}) of the checkpoint acknowledged at op {} fails ({after}): {e}", c.id, c.op_index),
                            step,
                        ));
                    }
                }
            }
            Status::Failed | Status::Interrupted => {
                if reused_later || m.ckpts.iter().any(|d| d.id == c.id && d.status == Status::Acked) {
                    continue; // judged through the acknowledged record of the same id
                }
                if let Ok(seen) = probe_restore(dir, &c.id) {
                    check_against(&seen, &c.snap, "crash.all-or-error", "StateStore::restore", &format!("restore({}) of the checkpoint attempt that {} at op {}", c.id, if c.status == Status::Failed { "failed" } else { "was interrupted" }, c.op_index), step)?;
                    obs.count("probe.broken_checkpoint_restored_completely");
                } else {
                    obs.count("probe.broken_checkpoint_restore_is_error");
                }
            }
        }
    }
    Ok(())
}

fn hold(s: StateStore, wrapped: bool) -> Holder {
    if wrapped {
        Holder::Wrapped(StatefulOperator::new(s, proc_put as ProcFn))
    } else {
        Holder::Plain(s)
    }
}

fn attempt_id(log: &[FsOp]) -> Option<String> {
    for op in log {
        match op {
            FsOp::CreateDirAll(p) => return p.file_name().map(|s| s.to_string_lossy().to_string()),
            FsOp::Create(p) => return p.parent().and_then(|q| q.file_name()).map(|s| s.to_string_lossy().to_string()),
            _ => {}
        }
    }
    None
}

struct Exec<'a> {
    t: &'a StoreTrace,
    dir: PathBuf,
    store: Option<Holder>,
    m: Model,
    /// record the shim calls and write sizes of the checkpoint at this op index
    record_at: Option<usize>,
    record_now: bool,
    recorded: Option<(Vec<FsOp>, Vec<usize>)>,
}

impl<'a> Exec<'a> {
    fn restart(&mut self, obs: &mut Obs) {
        self.store = None;
        self.store = Some(hold(new_store(&self.dir, self.t.max_checkpoints, self.t.default_ttl, self.t.auto), self.t.wrapped));
        self.m.live.clear();
        self.m.incarnation.clear();
        self.m.restarts += 1;
        obs.count("fault.restart");
    }

    /// Reads are not C20's business: where the visible state disagrees with the model (it never
    /// does on the pinned tree) the model adopts the observation and the disagreement is counted.
    fn resync(&mut self, obs: &mut Obs) {
        let seen = observe(self.store.as_ref().unwrap().st(), &[]);
        let snap = snapshot_of(&self.m, seen.tmin, seen.tmax);
        if check_against(&seen, &snap, "x", "x", "x", 0).is_ok() {
            return;
        }
        obs.count("probe.model_resynced_to_observation");
        for (k, got) in &seen.gets {
            match got {
                Some(v) => {
                    let ok = snap.must.get(k).or_else(|| snap.maybe.get(k)).map_or(false, |m| same(m, v));
                    if !ok {
                        self.m.live.insert(k.clone(), Entry { value: v.clone(), exp_lo: None, exp_hi: None, ttl: None, maybe_removed: true });
                    }
                }
                None => {
                    if snap.must.contains_key(k) {
                        self.m.live.remove(k);
                    }
                }
            }
        }
    }

    /// restore.atomic: a failed restore leaves the visible state as it was (keys whose expiry is
    /// undecided at these instants excepted)
    fn check_unchanged(&self, before: &Seen, step: usize, id: &str) -> Result<(), Violation> {
        let after = observe(self.store.as_ref().unwrap().st(), &[]);
        let lo = before.tmin.min(after.tmin);
        let hi = before.tmax.max(after.tmax);
        for (k, b) in &before.gets {
            if let Some(e) = self.m.live.get(k) {
                if e.presence(lo, hi) == Presence::Maybe {
                    continue;
                }
            }
            let a = after.gets.get(k).cloned().flatten();
            let eq = match (b, &a) {
                (Some(x), Some(y)) => same(x, y),
                (None, None) => true,
                _ => false,
            };
            if !eq {
                return Err(viol(
                    "restore.atomic",
                    "StateStore::restore",
                    if a.is_none() { "failed-restore-lost-a-key" } else { "failed-restore-changed-a-key" },
                    format!("restore({id}) failed, yet key {k} went from {b:?} to {a:?}"),
                    step,
                ));
            }
        }
        Ok(())
    }

    /// runs ops[from..]; `override_fault` replaces the fault of op `sweep_at`
    fn run_ops(&mut self, obs: &mut Obs, override_fault: Option<(usize, Fault)>) -> Result<(), Violation> {
        let t = self.t;
        for (step, op) in t.ops.iter().enumerate() {
            let store_present = self.store.is_some();
            debug_assert!(store_present);
            match op {
                Op::Put(k, v) | Op::PutTtl(k, v, _) => {
                    let key = key_name(t.key_style, *k);
                    clock::begin_call();
                    let r = match op {
                        Op::PutTtl(_, _, ttl) => self.store.as_mut().unwrap().st_mut().put_with_ttl(key.clone(), v.to_value(), ttl_dur(*ttl)),
                        _ => self.store.as_mut().unwrap().put(key.clone(), v.to_value()),
                    };
                    let reads = clock::shown_list();
                    if r.is_err() {
                        return Err(viol("harness.model-sync", "StateStore::put", "put-failed", format!("put failed: {r:?}"), step));
                    }
                    let now = clock::now_ms();
                    let (tmin, tmax) = (reads.iter().min().cloned().unwrap_or(now), reads.iter().max().cloned().unwrap_or(now));
                    let eff_ttl: Option<u64> = match op {
                        Op::PutTtl(_, _, ttl) => Some(*ttl),
                        _ => self.t.default_ttl,
                    };
                    let (lo, hi) = match eff_ttl {
                        Some(ttl) => (Some(tmin.saturating_add(ttl)), Some(tmax.saturating_add(ttl))),
                        None => (None, None),
                    };
                    if eff_ttl.is_some_and(|t| t >= u64::MAX - 1) {
                        obs.count("probe.ttl_that_means_never");
                    }
                    let ttl = eff_ttl;
                    if matches!(op, Op::Put(..)) && eff_ttl.is_some() {
                        obs.count("probe.put_with_default_ttl");
                    }
                    if ttl.is_some() && self.m.live.get(&key).is_some_and(|e| e.ttl == ttl && e.value == v.to_value() && e.exp_lo.is_some_and(|x| x > tmax)) {
                        obs.count("probe.live_entry_put_again_with_the_same_value_and_ttl");
                    }
                    self.m.live.insert(key, Entry { value: v.to_value(), exp_lo: lo, exp_hi: hi, ttl, maybe_removed: false });
                }
                Op::Update(k, v) => {
                    let key = key_name(t.key_style, *k);
                    clock::begin_call();
                    let r = self.store.as_mut().unwrap().st_mut().update(&key, v.to_value());
                    let reads = clock::shown_list();
                    let now = clock::now_ms();
                    let (tmin, tmax) = (reads.iter().min().cloned().unwrap_or(now), reads.iter().max().cloned().unwrap_or(now).max(now));
                    let pres = self.m.live.get(&key).map_or(Presence::Absent, |e| e.presence(tmin, tmax));
                    match (pres, r.is_ok()) {
                        (Presence::Must, false) => return Err(viol("harness.model-sync", "StateStore::update", "update-of-live-key-failed", format!("update({key}) failed: {r:?}"), step)),
                        (Presence::Absent, true) => return Err(viol("harness.model-sync", "StateStore::update", "update-of-absent-key-succeeded", format!("update({key}) succeeded on an absent/expired key"), step)),
                        (_, true) => {
                            let e = self.m.live.get_mut(&key).unwrap();
                            e.value = v.to_value();
                            e.maybe_removed = false;
                            if let (Some(hi), Some(ttl)) = (e.exp_hi, e.ttl) {
                                // whether an update refreshes the TTL is not the property's business:
                                // both readings stay admissible
                                e.exp_hi = Some(hi.max(tmax.saturating_add(ttl)));
                            }
                            obs.count("probe.update_ok");
                        }
                        (_, false) => {
                            obs.count("probe.update_refused");
                        }
                    }
                }
                Op::Delete(k) => {
                    let key = key_name(t.key_style, *k);
                    let _ = self.store.as_mut().unwrap().st_mut().delete(&key);
                    self.m.live.remove(&key);
                }
                Op::Clear => {
                    let r = self.store.as_mut().unwrap().st_mut().clear();
                    if r.is_err() {
                        return Err(viol("harness.model-sync", "StateStore::clear", "clear-failed", format!("clear failed: {r:?}"), step));
                    }
                    self.m.live.clear();
                    obs.count("probe.store_cleared");
                }
                Op::Bulk(n, kind) => {
                    clock::begin_call();
                    let mut items: Vec<(String, Value)> = Vec::new();
                    match kind {
                        0 => items.extend((0..*n).map(|i| (bulk_key(i), Value::Integer(i as i64)))),
                        1 => items.extend((0..*n).map(|i| (bulk_key(i), Value::String(format!("{i:05}-αβγ-\"q\"-{}", "x".repeat(24)))))),
                        _ => items.push((bulk_key(0), Value::String((0..*n).map(|i| format!("{i:06}é漢\n\\\"·")).collect::<String>()))),
                    }
                    for (key, v) in items {
                        let r = self.store.as_mut().unwrap().put(key.clone(), v.clone());
                        if r.is_err() {
                            return Err(viol("harness.model-sync", "StateStore::put", "put-failed", format!("put failed: {r:?}"), step));
                        }
                        let reads = clock::shown_list();
                        let now = clock::now_ms();
                        let (tmin, tmax) = (reads.iter().min().cloned().unwrap_or(now), reads.iter().max().cloned().unwrap_or(now).max(now));
                        let (lo, hi) = match self.t.default_ttl {
                            Some(ttl) => (Some(tmin + ttl), Some(tmax + ttl)),
                            None => (None, None),
                        };
                        self.m.live.insert(key, Entry { value: v, exp_lo: lo, exp_hi: hi, ttl: self.t.default_ttl, maybe_removed: false });
                    }
                    obs.count("probe.bulk_state");
                }
                Op::Cleanup => {
                    clock::begin_call();
                    let n = self.store.as_mut().unwrap().st_mut().cleanup_expired();
                    let reads = clock::shown_list();
                    let now = clock::now_ms();
                    let (tmin, tmax) = (reads.iter().min().cloned().unwrap_or(now), reads.iter().max().cloned().unwrap_or(now).max(now));
                    let mut gone = Vec::new();
                    let (mut lo, mut hi) = (0, 0);
                    for (k, e) in self.m.live.iter_mut() {
                        match e.presence(tmin, tmax) {
                            Presence::Absent => {
                                if !e.maybe_removed {
                                    lo += 1;
                                }
                                hi += 1;
                                gone.push(k.clone());
                            }
                            Presence::Maybe => {
                                if e.exp_lo.is_some() {
                                    hi += 1;
                                    e.maybe_removed = true;
                                }
                            }
                            Presence::Must => {}
                        }
                    }
                    for k in gone {
                        self.m.live.remove(&k);
                    }
                    if n < lo || n > hi {
                        return Err(viol("harness.model-sync", "StateStore::cleanup_expired", "cleanup-count", format!("cleanup_expired() returned {n}, model expects {lo}..={hi}"), step));
                    }
                    if n > 0 {
                        obs.count("probe.cleanup_removed_expired");
                    }
                }
                Op::Advance(ms) => {
                    clock::advance_ms(*ms);
                }
                Op::StepBack(ms) => {
                    clock::step_back_ms(*ms);
                    obs.count("fault.clock_step_back");
                }
                Op::Read => {
                    self.resync(obs);
                }
                Op::Restart => {
                    self.restart(obs);
                    probe_all(&self.dir, &self.m, step, obs, "restart")?;
                }
                Op::Checkpoint(fault) => {
                    let fault = match &override_fault {
                        Some((at, f)) if *at == step => Some(f.clone()),
                        _ => fault.clone(),
                    };
                    self.record_now = self.record_at == Some(step);
                    self.do_checkpoint(step, fault, obs)?;
                }
                Op::Restore(target, fault) => {
                    self.do_restore(step, *target, fault.clone(), obs)?;
                }
            }
            // cheap invariant after every step: the listing agrees with the retention list
            let listed: Vec<String> = self.store.as_ref().unwrap().st().list_checkpoints().iter().map(|c| c.id.clone()).collect();
            if listed != self.m.incarnation {
                return Err(viol("retention.listed", "StateStore::list_checkpoints", "listing-differs", format!("list_checkpoints() = {listed:?}, expected {:?}", self.m.incarnation), step));
            }
        }
        // end of history: everything acknowledged and not evicted must still restore exactly
        probe_all(&self.dir, &self.m, t.ops.len(), obs, "end of history")?;
        Ok(())
    }

    fn do_checkpoint(&mut self, step: usize, fault: Option<Fault>, obs: &mut Obs) -> Result<(), Violation> {
        self.resync(obs);
        // what the store itself shows right before the call (used below when the clock does not move)
        let shown_before = observe(self.store.as_ref().unwrap().st(), &[]);
        disk_begin(fault);
        clock::begin_call();
        let store = self.store.as_mut().unwrap();
        let name = match self.t.name_style {
            1 => "periodic".to_string(),
            2 => format!("../a/b c{}", step % 2),
            _ => format!("c{step}"),
        };
        let r = budget::with_budget(2_000_000, || store.checkpoint(name));
        let reads = clock::shown_list();
        let d = disk_end();
        for f in &d.fired {
            obs.count(f);
        }
        let now = clock::now_ms();
        let (tmin, tmax) = (reads.iter().min().cloned().unwrap_or(now), reads.iter().max().cloned().unwrap_or(now).max(now));
        if tmin != tmax {
            obs.count("fault.clock_ticked_during_checkpoint");
        }
        let mut snap = snapshot_of(&self.m, tmin, tmax);
        // "the unexpired keys the store held when that checkpoint was taken": when the observation right before
        // the call and every clock reading of the call show ONE instant, the store's own answer at that instant
        // settles every key the model had left open (an update that may or may not have refreshed a TTL, a
        // boundary instant): shown present => in the snapshot, shown absent => not in it
        if tmin == tmax && shown_before.tmin == tmin && shown_before.tmax == tmin && !snap.maybe.is_empty() {
            let open: Vec<String> = snap.maybe.keys().cloned().collect();
            for k in open {
                let v = snap.maybe.remove(&k).unwrap();
                if let Some(Some(_)) = shown_before.gets.get(&k) {
                    snap.must.insert(k, v);
                }
            }
            obs.count("probe.open_ttl_question_settled_by_the_store_s_own_answer");
        }
        if !snap.maybe.is_empty() {
            obs.count("probe.ttl_boundary_either");
        }
        let att = attempt_id(&d.log);
        if std::env::var("VERIF_DEBUG").is_ok() {
            eprintln!("op {step} checkpoint -> {:?} log {:?} fired {:?} dir listing {:?}", r.as_ref().map(|x| x.as_ref().map_err(|e| e.to_string())).map_err(|_| "panic"), d.log, d.fired, std::fs::read_dir(&self.dir).map(|it| it.filter_map(|e| e.ok()).map(|e| e.file_name()).collect::<Vec<_>>()));
        }
        if self.record_now {
            self.recorded = Some((d.log.clone(), d.write_lens.clone()));
            self.record_now = false;
        }
        match r {
            Ok(Ok(id)) => {
                if let Some(a) = &att {
                    if *a != id {
                        return Err(viol("ckpt.distinct", "StateStore::checkpoint", "returned-id-is-not-the-directory-written", format!("checkpoint returned {id} but wrote into {a}"), step));
                    }
                }
                // ids never repeat within one incarnation of the store; across a restart the only
                // thing that survives is the directory, so the id of a checkpoint that retention
                // has removed for certain may legitimately come back (counted)
                let restarts = self.m.restarts;
                if let Some(prev) = self.m.ckpts.iter().find(|c| c.id == id && c.status == Status::Acked && (c.incarnation == restarts || !c.evicted || c.evict_uncertain)) {
                    return Err(viol(
                        "ckpt.distinct",
                        "StateStore::checkpoint",
                        if prev.evicted { "id-of-evicted-checkpoint-reused" } else { "two-acknowledged-checkpoints-share-an-id" },
                        format!("checkpoint at op {step} was acknowledged as {id}, the id of the checkpoint acknowledged at op {}", prev.op_index),
                        step,
                    ));
                }
                if self.m.ckpts.iter().any(|c| c.id == id && c.status == Status::Acked) {
                    obs.count("probe.id_of_evicted_checkpoint_reused_after_restart");
                }
                if self.m.ckpts.iter().any(|c| c.id == id && c.status != Status::Acked) {
                    obs.count("probe.id_of_broken_attempt_reused");
                }
                // the id now denotes this checkpoint; older records of the same id (removed for
                // certain, or attempts that never got as far as a directory) are superseded
                self.m.ckpts.retain(|c| c.id != id);
                self.m.ckpts.push(Ckpt { id: id.clone(), snap, status: Status::Acked, evicted: false, evict_uncertain: false, op_index: step, incarnation: self.m.restarts });
                self.m.incarnation.push(id.clone());
                obs.count("probe.checkpoint_acked");
                if id.rsplit('_').next().and_then(|x| x.parse::<u32>().ok()).map_or(false, |n| n >= 10 && id.matches('_').count() >= 2) {
                    obs.count("probe.two_digit_id_suffix");
                }
                if self.m.incarnation.len() > self.t.max_checkpoints {
                    let old = self.m.incarnation.remove(0);
                    // still on disk (the removal met a fault)? then it may or may not restore
                    let uncertain = self.dir.join(&old).exists();
                    for c in self.m.ckpts.iter_mut().filter(|c| c.id == old) {
                        c.evicted = true;
                        c.evict_uncertain = uncertain;
                    }
                    obs.count("probe.retention_evicted_oldest");
                }
                if d.crash_next {
                    // the write completed and the call returned: the process dies now
                    self.restart(obs);
                    probe_all(&self.dir, &self.m, step, obs, "crash")?;
                } else {
                    probe_all(&self.dir, &self.m, step, obs, "later checkpoint")?;
                }
            }
            Ok(Err(e)) => {
                if d.fired.is_empty() {
                    obs.count("probe.checkpoint_refused_without_fault");
                }
                let _ = e;
                if let Some(a) = att {
                    self.m.ckpts.push(Ckpt { id: a, snap, status: Status::Failed, evicted: false, evict_uncertain: false, op_index: step, incarnation: self.m.restarts });
                }
                obs.count("probe.checkpoint_failed");
                probe_all(&self.dir, &self.m, step, obs, "failed checkpoint")?;
            }
            Err(payload) => {
                if payload.downcast_ref::<SimCrash>().is_none() {
                    return Err(viol("returns.no-panic", "StateStore::checkpoint", "checkpoint-panicked", format!("checkpoint panicked: {}", panic_text(&payload)), step));
                }
                obs.count("probe.checkpoint_interrupted_by_crash");
                // what the interrupted call had already done to the retention list is unknown to a
                // client; the process is gone anyway
                if let Some(a) = att {
                    // the metadata push happens after the write: if the crash came later (retention
                    // removal), the checkpoint file is complete but it was never acknowledged
                    self.m.ckpts.push(Ckpt { id: a, snap, status: Status::Interrupted, evicted: false, evict_uncertain: false, op_index: step, incarnation: self.m.restarts });
                }
                // a crash inside the retention removal leaves the evicted checkpoint half removed — but
                // retention may only take the old checkpoint away once the new one is completely on
                // disk: if the interrupted attempt does not restore completely, the old one must be intact
                if let Some(FsOp::RemoveDirAll(p)) = d.log.iter().find(|o| matches!(o, FsOp::RemoveDirAll(_))) {
                    let new_is_complete = match self.m.ckpts.last() {
                        Some(c) if c.status == Status::Interrupted && c.op_index == step => match probe_restore(&self.dir, &c.id) {
                            Ok(seen) => check_against(&seen, &c.snap, "x", "x", "x", step).is_ok(),
                            Err(_) => false,
                        },
                        _ => false,
                    };
                    if new_is_complete {
                        let old = p.file_name().map(|s| s.to_string_lossy().to_string()).unwrap_or_default();
                        for c in self.m.ckpts.iter_mut().filter(|c| c.id == old) {
                            c.evicted = true;
                            c.evict_uncertain = true;
                        }
                    } else {
                        obs.count("probe.retention_removal_seen_before_new_checkpoint_complete");
                    }
                }
                self.restart(obs);
                probe_all(&self.dir, &self.m, step, obs, "crash")?;
            }
        }
        Ok(())
    }

    fn do_restore(&mut self, step: usize, target: Target, fault: Option<Fault>, obs: &mut Obs) -> Result<(), Violation> {
        let acked: Vec<usize> = self.m.ckpts.iter().enumerate().filter(|(_, c)| c.status == Status::Acked).map(|(i, _)| i).collect();
        let broken: Vec<usize> = self.m.ckpts.iter().enumerate().filter(|(_, c)| c.status != Status::Acked).map(|(i, _)| i).collect();
        let pick: Option<usize> = match target {
            Target::Acked(n) if !acked.is_empty() => Some(acked[n % acked.len()]),
            Target::Broken(n) if !broken.is_empty() => Some(broken[n % broken.len()]),
            _ => None,
        };
        let latest: Option<String> = if target == Target::Latest {
            let l = self.store.as_ref().unwrap().st().latest_checkpoint().map(|c| c.id);
            // which checkpoint counts as the latest is not C20's business: whatever id comes back is restored
            // and judged like any other id
            if l != self.m.incarnation.last().cloned() {
                obs.count("probe.latest_checkpoint_is_not_the_last_acknowledged");
            }
            if l.is_some() {
                obs.count("probe.restore_of_latest_checkpoint");
            }
            l
        } else {
            None
        };
        let id = latest.or_else(|| pick.map(|i| self.m.ckpts[i].id.clone())).unwrap_or_else(|| "checkpoint_1".to_string());
        // when an id was used by several attempts, the acknowledged one is what the id denotes
        let rec: Option<Ckpt> = self.m.ckpts.iter().filter(|c| c.id == id).max_by_key(|c| (c.status == Status::Acked, c.op_index)).cloned();
        self.resync(obs);
        let seen_before = observe(self.store.as_ref().unwrap().st(), &[]);
        disk_begin(fault);
        let store = self.store.as_mut().unwrap();
        let r = budget::with_budget(2_000_000, || store.restore(&id));
        let d = disk_end();
        for f in &d.fired {
            obs.count(f);
        }
        match r {
            Err(payload) => {
                if payload.downcast_ref::<SimCrash>().is_none() {
                    return Err(viol("returns.no-panic", "StateStore::restore", "restore-panicked", format!("restore panicked: {}", panic_text(&payload)), step));
                }
                self.restart(obs);
                probe_all(&self.dir, &self.m, step, obs, "crash")?;
            }
            Ok(Ok(())) => {
                let seen = observe(self.store.as_ref().unwrap().st(), &[]);
                match &rec {
                    None => {
                        return Err(viol("restore.exact", "StateStore::restore", "restore-of-unknown-id-succeeded", format!("restore({id}) succeeded although no checkpoint attempt ever used that id"), step));
                    }
                    Some(c) => {
                        let clause = if c.status == Status::Acked { "restore.exact" } else { "crash.all-or-error" };
                        check_against(&seen, &c.snap, clause, "StateStore::restore", &format!("restore({id}) (checkpoint of op {}, {:?})", c.op_index, c.status), step)?;
                        // the model continues from what was restored: entries carry no TTL
                        self.m.live.clear();
                        for (k, v) in &seen.gets {
                            if let Some(v) = v {
                                self.m.live.insert(k.clone(), Entry { value: v.clone(), exp_lo: None, exp_hi: None, ttl: None, maybe_removed: false });
                            }
                        }
                        obs.count("probe.restore_ok");
                        if self.m.ckpts.iter().any(|d| d.op_index > c.op_index) {
                            obs.count("probe.restore_of_older_checkpoint_after_later_ones");
                        }
                    }
                }
            }
            Ok(Err(e)) => {
                if let Some(c) = &rec {
                    if c.status == Status::Acked && !c.evicted && d.fired.is_empty() {
                        return Err(viol("restore.exact", "StateStore::restore", "acked-checkpoint-unrestorable", format!("restore({id}) of the checkpoint acknowledged at op {} failed without any injected fault: {e}", c.op_index), step));
                    }
                }
                obs.count("probe.restore_refused");
                // restore.atomic
                self.check_unchanged(&seen_before, step, &id)?;
            }
        }
        Ok(())
    }
}

fn fresh_dir() -> PathBuf {
    use std::sync::atomic::{AtomicU64, Ordering};
    static N: AtomicU64 = AtomicU64::new(0);
    let base = std::env::var("VERIF_SCRATCH_RUN").unwrap_or_else(|_| format!("/dev/shm/rre-verif-{}-solo", std::process::id()));
    let p = PathBuf::from(base).join(format!("r{}", N.fetch_add(1, Ordering::SeqCst)));
    let _ = std::fs::remove_dir_all(&p);
    let _ = std::fs::create_dir_all(&p);
    p
}

fn run_once(t: &StoreTrace, obs: &mut Obs, override_fault: Option<(usize, Fault)>, record_at: Option<usize>) -> (Result<(), Violation>, Option<(Vec<FsOp>, Vec<usize>)>) {
    let dir = fresh_dir();
    clock::install(CLOCK_BASE_MS);
    clock::set_tick_pattern(t.tick_pattern.clone());
    KEY_STYLE.with(|c| c.set(t.key_style));
    install_disk();
    disk_begin(None);
    let mut ex = Exec {
        t,
        dir: dir.clone(),
        store: Some(hold(new_store(&dir, t.max_checkpoints, t.default_ttl, t.auto), t.wrapped)),
        m: Model { live: BTreeMap::new(), ckpts: Vec::new(), incarnation: Vec::new(), restarts: 0 },
        record_at,
        record_now: false,
        recorded: None,
    };
    let r = ex.run_ops(obs, override_fault);
    let acked = ex.m.ckpts.iter().filter(|c| c.status == Status::Acked).count();
    let broken = ex.m.ckpts.len() - acked;
    let sweep = ex.recorded.take();
    drop(ex);
    verif_hooks::set_fs(None);
    clock::uninstall();
    let _ = std::fs::remove_dir_all(&dir);
    if r.is_ok() {
        obs.nontrivial |= acked >= 2 || (acked >= 1 && broken >= 1);
    }
    (r, sweep)
}

/// Byte offsets at which a write of `len` bytes is interrupted in a sweep: every offset of a file of up to 600
/// bytes; of a longer one the two ends, the neighbourhood of 4096 × {1,2,3,4,8,16} and of 65536, and 12 seeded
/// offsets
fn sweep_offsets(len: usize, seed: u64) -> Vec<usize> {
    if len <= 600 {
        return (0..=len).collect();
    }
    let mut v: BTreeSet<usize> = [0usize, 1, 2, len - 2, len - 1, len].into_iter().collect();
    for m in [1usize, 2, 3, 4, 8, 16] {
        for d in [-1i64, 0, 1] {
            let o = (m * 4096) as i64 + d;
            if o > 0 && (o as usize) < len {
                v.insert(o as usize);
            }
        }
    }
    for o in [65535usize, 65536, 65537] {
        if o < len {
            v.insert(o);
        }
    }
    let mut r = Rng::new(seed ^ 0x5eed_0ff5);
    for _ in 0..12 {
        v.insert(r.usize(len + 1));
    }
    v.into_iter().collect()
}

fn gen_val(rng: &mut Rng, depth: usize) -> Val {
    let strs = ["", "a", "q\"uote", "back\\slash", "né-ñ-漢", "ctl\n\t\u{1}", "}{,:", "null"];
    if depth == 0 && rng.chance(1, 150) {
        // nested 20 to 130 levels deep
        return Val::Deep(*rng.pick(&[20u8, 62, 63, 64, 70, 130]), rng.below(2) as u8);
    }
    match rng.usize(if depth >= 2 { 10 } else { 13 }) {
        0 | 1 | 2 => Val::Int(*rng.pick(&[0i64, 1, -1, 42, i64::MAX, i64::MIN, 1 << 53, 7])),
        3 => Val::Float(*rng.pick(&[0.0f64, -0.0, 0.1, 1.5, -2.25, 1e21, 1e-7, 123456.789, f64::MAX, f64::MIN_POSITIVE])),
        4 => {
            // arbitrary doubles: a random bit pattern, a random decimal with many digits, rarely a non-finite one
            let x = match rng.usize(40) {
                0 => *rng.pick(&[f64::INFINITY, f64::NEG_INFINITY, f64::NAN]),
                1..=19 => f64::from_bits(rng.next_u64()),
                _ => rng.below(1 << 53) as f64 / 9_007_199.0 * if rng.chance(1, 2) { 1.0 } else { -1e-3 },
            };
            Val::FloatBits(x.to_bits())
        }
        5 | 6 => Val::Str(rng.pick(&strs).to_string()),
        7 => Val::Bool(rng.chance(1, 2)),
        8 => Val::Null,
        9 => Val::Expr("Order.qty * 2".to_string()),
        10 | 11 => {
            let n = rng.usize(3);
            Val::Arr((0..n).map(|_| gen_val(rng, depth + 1)).collect())
        }
        _ => {
            let n = rng.usize(3);
            Val::Obj((0..n).map(|i| (format!("f{i}{}", rng.pick(&["", "\"", "é"])), gen_val(rng, depth + 1))).collect())
        }
    }
}

fn gen_fault(rng: &mut Rng, for_restore: bool) -> Fault {
    let ek = |rng: &mut Rng| *rng.pick(&[ErrKind::Eio, ErrKind::Enospc, ErrKind::Eacces, ErrKind::Eintr]);
    if for_restore {
        return Fault {
            at_call: rng.usize(3),
            kind: match rng.usize(5) {
                0 => FaultKind::CrashBefore,
                1 | 2 => FaultKind::ShortReads(*rng.pick(&[1usize, 1, 2, 3, 5, 64])),
                _ => FaultKind::Err(ek(rng)),
            },
        };
    }
    let kind = match rng.usize(11) {
        10 => FaultKind::ShortWrites(*rng.pick(&[1usize, 3, 16])),
        0 | 1 => FaultKind::Err(ek(rng)),
        2 => FaultKind::ShortWrite(*rng.pick(&[1usize, 2, 7, 50])),
        3 => FaultKind::ShortWriteThenErr(*rng.pick(&[1usize, 2, 7, 50, 10_000]), ek(rng)),
        4 | 5 => FaultKind::CrashBefore,
        6 | 7 | 8 => FaultKind::CrashAfterBytes(*rng.pick(&[0usize, 1, 2, 5, 13, 40, 10_000])),
        _ => FaultKind::CrashInsideRemoveDir,
    };
    let at_call = match kind {
        FaultKind::ShortWrite(_) | FaultKind::ShortWriteThenErr(..) | FaultKind::CrashAfterBytes(_) => 2,
        FaultKind::CrashInsideRemoveDir => 3,
        _ => rng.usize(4),
    };
    Fault { at_call, kind }
}

impl World for StoreWorld {
    type Trace = StoreTrace;
    fn name(&self) -> &'static str {
        "store"
    }
    fn info(&self, _prop: &str) -> WorldInfo {
        WorldInfo {
            level: "fault_enumeration",
            rule: "seeded histories of <=10 operations (put, put_with_ttl 0/1/2/5 ms, update, delete, cleanup_expired, checkpoint, \
                   restore of acknowledged / failed / interrupted / bogus ids, clock advance 0/ttl/ttl+-1/large, clock step back, read, \
                   restart) over 3 keys on the File backend, max_checkpoints 1/2/3/10, values of every Value variant incl. i64 \
                   extremes, -0.0, escapes, non-ASCII, nesting; faults attached to a specific fs-shim call of a specific operation. \
                   In sweep runs (every thorough run, 1 in 8 quick runs) one checkpoint of the history is interrupted at EVERY shim \
                   call and EVERY byte offset of its file (plus the half-done retention removal), each followed by restart and a \
                   restore probe of every checkpoint ever attempted: `crash_states_enumerated` counts them. Non-trivial iff the \
                   history acknowledged >=2 checkpoints or one plus a failed/interrupted one; distinct = fingerprint of the trace"
                .into(),
            real: vec!["StateStore (File backend)", "StateEntry TTL logic", "serde_json (checkpoint format)", "the kernel's tmpfs under the scratch directory"],
            stub: vec!["SimClock (wall ms: ids, TTL)", "SimDisk decisions (errors, short writes, crash points) through the cfg(rre_verif) fs shim", "process boundary (restart = new StateStore on the same directory)", "hash seed"],
            assumptions: vec![
                "crash model: process crash — completed calls persist, an in-flight write persists a prefix; power loss with un-synced pages is not modelled (the property does not ask for it, the code has no fsync)".into(),
                "floats are arbitrary doubles (random bit patterns and many-digit decimals, compared by bit pattern after restore), non-finite ones included: a checkpoint of a state that holds one may be refused, but an acknowledged checkpoint must restore".into(),
                "TTL expiry is three-valued at now == created + ttl and whenever the clock ticked across the expiry during a call; whether update() refreshes a TTL is left open".into(),
                "an evicted checkpoint may restore exactly or fail; a checkpoint() that refuses without a fault is counted, not judged".into(),
            ],
            hang_is_a_verdict: true,
            required_probes: vec![
                "fault.eio",
                "fault.enospc",
                "fault.eacces",
                "fault.eintr",
                "fault.short_write",
                "fault.crash_before_call",
                "fault.crash_inside_write",
                "fault.crash_after_complete_write",
                "fault.crash_inside_remove_dir",
                "fault.clock_step_back",
                "fault.restart",
                "probe.two_checkpoints_in_one_ms",
                "probe.later_checkpoint_computes_earlier_ms",
                "probe.ttl_boundary_either",
                "probe.retention_evicted_oldest",
                "probe.restore_of_older_checkpoint_after_later_ones",
                "probe.broken_checkpoint_restore_is_error",
                "probe.broken_checkpoint_restored_completely",
                "probe.crash_states_enumerated",
                "probe.put_with_default_ttl",
                "probe.two_digit_id_suffix",
                "fault.short_read",
            ],
            quick_runs: 250_000,
            thorough_runs: 2_000_000,
        }
    }

    fn generate(&self, _prop: &str, tier: Tier, rng: &mut Rng) -> StoreTrace {
        let hash_seed = rng.next_u64();
        let max_checkpoints = *rng.pick(&[1usize, 2, 3, 10]);
        let n = 2 + rng.usize(9);
        let faults_on = !rng.chance(1, 4);
        let clock_mode = rng.usize(4); // 0 advancing, 1 mostly frozen, 2 with steps back, 3 ttl-boundary play
        let ttls = [0u64, 1, 2, 5];
        let mut ops = Vec::new();
        let mut last_ttl = 2u64;
        let mut last_put_ttl: Option<Op> = None;
        for _ in 0..n {
            let w = rng.weighted(&[14, 10, 6, 5, 3, 22, 12, 10, 4, 6, 5]);
            let op = match w {
                0 => Op::Put(rng.usize(3), gen_val(rng, 0)),
                1 => {
                    // one put_with_ttl in three repeats the previous one exactly — same key, value and TTL, as
                    // an operator does that writes its unchanged state again on every event; the entry's
                    // lifetime starts afresh all the same
                    match &last_put_ttl {
                        Some(prev) if rng.chance(1, 3) => prev.clone(),
                        _ => {
                            last_ttl = *rng.pick(&ttls);
                            // one TTL in thirty means "never": Duration::MAX or more than 2^64 ms
                            let t = if rng.chance(1, 30) { *rng.pick(&[u64::MAX, u64::MAX - 1]) } else { last_ttl };
                            let op = Op::PutTtl(rng.usize(3), gen_val(rng, 0), t);
                            last_put_ttl = Some(op.clone());
                            op
                        }
                    }
                }
                2 => Op::Update(rng.usize(3), gen_val(rng, 0)),
                3 => {
                    if rng.chance(1, 5) {
                        Op::Clear
                    } else {
                        Op::Delete(rng.usize(3))
                    }
                }
                4 => Op::Cleanup,
                5 => Op::Checkpoint(if faults_on && rng.chance(2, 5) { Some(gen_fault(rng, false)) } else { None }),
                6 => Op::Restore(
                    match rng.usize(7) {
                        6 => Target::Latest,
                        0 => Target::Bogus,
                        1 | 2 => Target::Broken(rng.usize(4)),
                        _ => Target::Acked(rng.usize(6)),
                    },
                    if faults_on && rng.chance(1, 4) { Some(gen_fault(rng, true)) } else { None },
                ),
                7 => Op::Advance(match clock_mode {
                    1 => *rng.pick(&[0u64, 0, 0, 1]),
                    3 => *rng.pick(&[last_ttl, last_ttl + 1, last_ttl.saturating_sub(1), 0]),
                    _ => *rng.pick(&[0u64, 1, 2, 4, 5, 6, 1000]),
                }),
                8 => {
                    if clock_mode == 2 || rng.chance(1, 4) {
                        Op::StepBack(rng.range(1, 5) as u64)
                    } else {
                        Op::Advance(1)
                    }
                }
                9 => Op::Read,
                _ => {
                    if faults_on {
                        Op::Restart
                    } else {
                        Op::Read
                    }
                }
            };
            ops.push(op);
            // clocks that move by themselves between operations
            if clock_mode == 0 && rng.chance(2, 3) {
                ops.push(Op::Advance(rng.range(1, 3) as u64));
            }
        }
        ops.truncate(14);
        // one run in 16: a checkpoint storm under a frozen clock (ids with one- and two-digit suffixes,
        // retention working all the time)
        let storm = rng.chance(1, 16);
        if storm {
            ops.clear();
            ops.push(Op::Put(0, Val::Int(1)));
            for i in 0..16 {
                if i % 6 == 5 {
                    ops.push(Op::Put(rng.usize(3), Val::Int(i as i64)));
                } else {
                    ops.push(Op::Checkpoint(None));
                }
            }
        }
        let tick_pattern = if !storm && rng.chance(1, 5) { vec![0, *rng.pick(&[0u8, 1]), 1] } else { vec![] };
        let ck: Vec<usize> = ops.iter().enumerate().filter(|(_, o)| matches!(o, Op::Checkpoint(_))).map(|(i, _)| i).collect();
        let sweep = !ck.is_empty() && (tier == Tier::Thorough || rng.chance(1, 8));
        let sweep_op = if sweep { Some(*rng.pick(&ck)) } else { None };
        let default_ttl = if !storm && rng.chance(1, 6) { Some(*rng.pick(&[1u64, 2, 5, 50])) } else { None };
        let max_checkpoints = if storm { *rng.pick(&[2usize, 3, 10]) } else { max_checkpoints };
        // one run in eight: the same history with TTLs and clock movements in seconds instead of ms
        let slow = !storm && rng.chance(1, 8);
        let default_ttl = if slow { default_ttl.map(|d| d * 1000) } else { default_ttl };
        if slow {
            for o in ops.iter_mut() {
                match o {
                    Op::PutTtl(_, _, ttl) if *ttl < u64::MAX - 1 => *ttl = *ttl * 1000 + if rng.chance(1, 3) { rng.below(1000) } else { 0 },
                    Op::Advance(d) if *d < 1000 => *d *= 1000,
                    Op::StepBack(d) => *d *= 1000,
                    _ => {}
                }
            }
        }
        // configuration swarm: one run in five switches auto_checkpoint on, with an interval from 0 ms to a minute
        let auto = if rng.chance(1, 5) { Some(*rng.pick(&[0u64, 1, 5, 60_000])) } else { None };
        // further swarm dimensions (round 15): the key pool, the checkpoint names, the StatefulOperator wrapper
        let key_style = if rng.chance(1, 2) { 0 } else { 1 + rng.usize(3) as u8 };
        let name_style = *rng.pick(&[0u8, 0, 0, 0, 1, 2]);
        let wrapped = rng.chance(1, 3);
        if storm {
            return StoreTrace { hash_seed, max_checkpoints, default_ttl, auto, key_style, name_style, wrapped, ops, tick_pattern, sweep_op: None };
        }
        // one run in 600: bulk state — the checkpoint file is 2 KB … 100 KB instead of a few hundred bytes, and
        // the faults work in the units that I/O layers work in
        let mut sweep_op = sweep_op;
        if rng.chance(1, 1500) {
            let kind = rng.usize(3) as u8;
            let n = if kind == 2 { *rng.pick(&[300usize, 1200, 5000]) } else { *rng.pick(&[150usize, 700, 700, 2000]) };
            if tier == Tier::Thorough && !rng.chance(1, 3) {
                sweep_op = None;
            }
            ops.insert(rng.usize(2).min(ops.len()), Op::Bulk(n, kind));
            sweep_op = sweep_op.map(|_| 0).and_then(|_| {
                let ck: Vec<usize> = ops.iter().enumerate().filter(|(_, o)| matches!(o, Op::Checkpoint(_))).map(|(i, _)| i).collect();
                if ck.is_empty() { None } else { Some(*rng.pick(&ck)) }
            });
            for o in ops.iter_mut() {
                if let Op::Checkpoint(Some(f)) | Op::Restore(_, Some(f)) = o {
                    f.kind = match f.kind.clone() {
                        FaultKind::ShortWrite(k) => FaultKind::ShortWrite(k * 585),
                        FaultKind::ShortWriteThenErr(k, e) => FaultKind::ShortWriteThenErr(k * 585, e),
                        FaultKind::CrashAfterBytes(k) => FaultKind::CrashAfterBytes(*rng.pick(&[k, 4095, 4096, 4097, 8192, 16384, 65536, 70_001])),
                        FaultKind::ShortReads(k) => FaultKind::ShortReads(*rng.pick(&[509usize, 4096, 4097, 8191, 65536]) + k % 2),
                        FaultKind::ShortWrites(k) => FaultKind::ShortWrites(*rng.pick(&[512usize, 4096, 8192, 65536]) + k % 2),
                        other => other,
                    };
                }
            }
        }
        StoreTrace { hash_seed, max_checkpoints, default_ttl, auto, key_style, name_style, wrapped, ops, tick_pattern, sweep_op }
    }

    fn hash_seed(&self, t: &StoreTrace) -> u64 {
        t.hash_seed
    }

    fn run(&self, _prop: &str, t: &StoreTrace, obs: &mut Obs) -> Result<(), Violation> {
        if t.max_checkpoints == 0 {
            return Ok(());
        }
        obs.faulty = t.ops.iter().any(|o| matches!(o, Op::Checkpoint(Some(_)) | Op::Restore(_, Some(_)) | Op::Restart | Op::StepBack(_))) || t.sweep_op.is_some();
        obs.fp_str(&serde_json::to_string(t).unwrap_or_default());
        // probes on the clock script: two checkpoints in one ms / a later one computing an earlier ms
        {
            let mut now: i64 = 0;
            let mut seen: Vec<i64> = Vec::new();
            for o in &t.ops {
                match o {
                    Op::Advance(d) => now += *d as i64,
                    Op::StepBack(d) => now -= *d as i64,
                    Op::Checkpoint(_) => {
                        if t.tick_pattern.is_empty() {
                            if seen.contains(&now) {
                                obs.count("probe.two_checkpoints_in_one_ms");
                            }
                            if seen.iter().any(|s| *s > now) {
                                obs.count("probe.later_checkpoint_computes_earlier_ms");
                            }
                        }
                        seen.push(now);
                    }
                    _ => {}
                }
            }
        }
        let (r, _) = run_once(t, obs, None, None);
        r?;
        if let Some(at) = t.sweep_op {
            if !matches!(t.ops.get(at), Some(Op::Checkpoint(_))) {
                return Ok(());
            }
            // learn the shim calls of that checkpoint from a pass in which it carries no fault
            let calls = {
                let mut t2 = t.clone();
                t2.ops[at] = Op::Checkpoint(None);
                t2.sweep_op = None;
                let mut o2 = Obs::new(std::sync::Arc::new(crate::core::Known::default()));
                let (_r, c) = run_once(&t2, &mut o2, None, Some(at));
                c
            };
            if let Some((log, write_lens)) = calls {
                let mut points: Vec<Fault> = Vec::new();
                let mut write_seen = 0;
                for (ci, op) in log.iter().enumerate() {
                    points.push(Fault { at_call: ci, kind: FaultKind::CrashBefore });
                    match op {
                        FsOp::Write { .. } => {
                            let len = write_lens.get(write_seen).cloned().unwrap_or(0);
                            write_seen += 1;
                            for k in sweep_offsets(len, t.hash_seed) {
                                points.push(Fault { at_call: ci, kind: FaultKind::CrashAfterBytes(k) });
                            }
                        }
                        FsOp::RemoveDirAll(_) => points.push(Fault { at_call: ci, kind: FaultKind::CrashInsideRemoveDir }),
                        _ => {}
                    }
                }
                for f in points {
                    let (r, _) = run_once(t, obs, Some((at, f.clone())), None);
                    if let Err(mut v) = r {
                        v.message = format!("[sweep: checkpoint at op {at} interrupted by {f:?}] {}", v.message);
                        return Err(v);
                    }
                    obs.count("probe.crash_states_enumerated");
                }
            }
        }
        Ok(())
    }

    fn shrink(&self, t: &StoreTrace) -> Vec<StoreTrace> {
        let mut out = Vec::new();
        if t.sweep_op.is_some() {
            out.push(StoreTrace { sweep_op: None, ..t.clone() });
        }
        for v in drop_chunks(&t.ops) {
            // keep the sweep index pointing at a checkpoint
            let mut c = StoreTrace { ops: v, ..t.clone() };
            if let Some(at) = c.sweep_op {
                if !matches!(c.ops.get(at), Some(Op::Checkpoint(_))) {
                    c.sweep_op = c.ops.iter().position(|o| matches!(o, Op::Checkpoint(_)));
                }
            }
            out.push(c);
        }
        if !t.tick_pattern.is_empty() {
            out.push(StoreTrace { tick_pattern: vec![], ..t.clone() });
        }
        for i in 0..t.ops.len() {
            let mut alts: Vec<Op> = Vec::new();
            match &t.ops[i] {
                Op::Put(k, v) => {
                    if *v != Val::Int(1) {
                        alts.push(Op::Put(*k, Val::Int(1)));
                    }
                    if *k != 0 {
                        alts.push(Op::Put(0, v.clone()));
                    }
                }
                Op::PutTtl(k, v, ttl) => {
                    alts.push(Op::Put(*k, v.clone()));
                    if *v != Val::Int(1) {
                        alts.push(Op::PutTtl(*k, Val::Int(1), *ttl));
                    }
                    if *ttl > 0 {
                        alts.push(Op::PutTtl(*k, v.clone(), ttl - 1));
                    }
                }
                Op::Update(k, v) => {
                    if *v != Val::Int(2) {
                        alts.push(Op::Update(*k, Val::Int(2)));
                    }
                }
                Op::Checkpoint(Some(f)) => {
                    alts.push(Op::Checkpoint(None));
                    match &f.kind {
                        FaultKind::CrashAfterBytes(k) if *k > 0 => alts.push(Op::Checkpoint(Some(Fault { at_call: f.at_call, kind: FaultKind::CrashAfterBytes(k / 2) }))),
                        FaultKind::ShortWriteThenErr(k, e) if *k > 1 => alts.push(Op::Checkpoint(Some(Fault { at_call: f.at_call, kind: FaultKind::ShortWriteThenErr(k / 2, *e) }))),
                        _ => {}
                    }
                }
                Op::Restore(tg, Some(_)) => alts.push(Op::Restore(*tg, None)),
                Op::Restore(Target::Acked(n), None) if *n > 0 => alts.push(Op::Restore(Target::Acked(n - 1), None)),
                Op::Restore(Target::Broken(n), None) if *n > 0 => alts.push(Op::Restore(Target::Broken(n - 1), None)),
                Op::Advance(d) if *d > 0 => {
                    alts.push(Op::Advance(d / 2));
                    alts.push(Op::Advance(d - 1));
                }
                Op::StepBack(d) if *d > 1 => alts.push(Op::StepBack(d - 1)),
                Op::Bulk(n, k) => {
                    if *n > 1 {
                        alts.push(Op::Bulk(n / 2, *k));
                        alts.push(Op::Bulk(n - 1, *k));
                    }
                    if *k != 0 {
                        alts.push(Op::Bulk(*n, 0));
                    }
                }
                Op::Clear => alts.push(Op::Delete(0)),
                Op::Restore(Target::Latest, None) => alts.push(Op::Restore(Target::Acked(0), None)),
                _ => {}
            }
            for a in alts {
                let mut c = t.clone();
                c.ops[i] = a;
                out.push(c);
            }
        }
        if t.max_checkpoints != 10 {
            out.push(StoreTrace { max_checkpoints: 10, ..t.clone() });
        }
        if t.default_ttl.is_some() {
            out.push(StoreTrace { default_ttl: None, ..t.clone() });
        }
        if t.key_style != 0 {
            out.push(StoreTrace { key_style: 0, ..t.clone() });
        }
        if t.name_style != 0 {
            out.push(StoreTrace { name_style: 0, ..t.clone() });
        }
        if t.wrapped {
            out.push(StoreTrace { wrapped: false, ..t.clone() });
        }
        if t.auto.is_some() {
            out.push(StoreTrace { auto: None, ..t.clone() });
        }
        if t.hash_seed != 1 {
            out.push(StoreTrace { hash_seed: 1, ..t.clone() });
        }
        out
    }
}
