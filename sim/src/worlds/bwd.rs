//! World `bwd` (C09, C10, C11): `BackwardEngine` with its three searches. Which candidate rule
//! is executed first comes out of a `HashSet<String>` (`ConclusionIndex::find_candidates`), so
//! what a query hands back, what a failed attempt leaves behind and whether two engines agree
//! depend on the per-process hash seed — owned here through the getrandom seam. Every query is
//! run on the long-lived engine and again on fresh engines under further hash seeds.
//! A second sub-workload drives the undo-frame API of `Facts` directly (C10, second sentence).

use crate::core::rng::Rng;
use crate::core::{budget, clock, drop_chunks, hashseed, panic_text, Obs, Tier, Violation, World, WorldInfo};
use rust_rule_engine::backward::backward_engine::{BackwardConfig, BackwardEngine};
use rust_rule_engine::backward::search::SearchStrategy;
use rust_rule_engine::engine::facts::Facts;
use rust_rule_engine::engine::knowledge_base::KnowledgeBase;
use rust_rule_engine::engine::rule::{Condition, ConditionGroup, Rule};
use rust_rule_engine::rete::facts::TypedFacts;
use rust_rule_engine::rete::propagation::IncrementalEngine;
use rust_rule_engine::rete::working_memory::FactHandle;
use rust_rule_engine::types::{ActionType, Operator, Value};
use serde::{Deserialize, Serialize};
use std::collections::{BTreeMap, BTreeSet, HashMap};
use std::sync::{Arc, Mutex};

const NF: usize = 5;

#[derive(Clone, Copy, Debug, Serialize, Deserialize, PartialEq)]
pub enum Ty {
    Bool,
    Str,
    Int,
    /// string fields whose CONDITIONS also use the string operators (starts_with, ends_with, contains,
    /// not_contains) with literals that contain a dot; goals on them stay `==` / `!=`
    Text,
}

/// number of condition operators of a type
fn nops(ty: Ty) -> u8 {
    match ty {
        Ty::Int | Ty::Text => 6,
        _ => 2,
    }
}

const TEXT_VALUES: [&str; 3] = ["p.ab", "p.ac", "q.bc"];

/// the literal of a condition atom: the field's own values for `==` / `!=` and the ordering operators, a
/// pattern for the string operators of `Ty::Text`
fn cond_lit(ty: Ty, op: u8, lit: u8) -> Value {
    match (ty, op % 6) {
        (Ty::Text, 2) => Value::String(["p.", "q.", "p.a"][lit as usize % 3].to_string()),
        (Ty::Text, 3) => Value::String(["c", ".ab", "bc"][lit as usize % 3].to_string()),
        (Ty::Text, 4) | (Ty::Text, 5) => Value::String([".a", "b", "q"][lit as usize % 3].to_string()),
        _ => lit_value(ty, lit),
    }
}

#[derive(Clone, Debug, Serialize, Deserialize, PartialEq)]
pub struct BAtom {
    pub field: u8,
    pub op: u8,
    pub lit: u8,
}

#[derive(Clone, Debug, Serialize, Deserialize, PartialEq)]
pub enum BCond {
    Atom(BAtom),
    And(Box<BCond>, Box<BCond>),
    Or(Box<BCond>, Box<BCond>),
}

#[derive(Clone, Debug, Serialize, Deserialize, PartialEq)]
pub struct BRule {
    pub cond: BCond,
    pub sets: Vec<(u8, u8)>,
    /// injected fault: after its assignments the rule calls a method on an object that does not
    /// exist, so executing it returns an error midway
    #[serde(default)]
    pub fails: bool,
    /// assignments that READ a fact: `target = source` (the value of another field at that moment).
    /// Generated for C11 only, whose oracles compare engines with each other and need no reference semantics
    #[serde(default)]
    pub copies: Vec<(u8, u8)>,
    /// the rule carries the no-loop attribute (GRL files used with the backward engine do; the pinned search
    /// does not look at it, so nothing may change)
    #[serde(default)]
    pub no_loop: bool,
    /// `retract(F.fK)` after the assignments: the rule REMOVES a fact (Facts::remove under the search's undo
    /// frames). Generated for C10 and C11 only, whose oracles need no reference semantics of removal
    #[serde(default)]
    pub retracts: Vec<u8>,
    /// `Aux.list += 1` after the assignments: the rule appends to an ARRAY fact the caller owns (it exists
    /// before the query). C10 and C11 only, as for `retracts`
    #[serde(default)]
    pub appends: bool,
    /// the rule carries `date_effective` = the start of the run + this many seconds (C11 only, with a simulated
    /// wall clock that the caller moves between queries). The pinned backward search does not look at dates —
    /// nothing may change; a search that does look must not serve a verdict memoised at another instant
    #[serde(default)]
    pub effective_in: Option<u8>,
}

/// start of the simulated wall clock in runs with dated rules
const BWD_CLOCK_BASE_MS: u64 = 1_700_000_000_000;

#[derive(Clone, Debug, Serialize, Deserialize, PartialEq)]
pub enum BOp {
    Query(u8),
    /// `NOT <goal>` (closed-world negation); generated for C11 only, whose oracles compare engines with
    /// each other and need no reference semantics of negation
    QueryNot(u8),
    /// the caller changes one of its facts
    SetFact(u8, u8),
    /// a caller fact no rule or goal reads is removed / asserted again
    RemoveAux,
    AssertAux(u8),
    /// the caller replaces a fact by a value of another type that prints alike (1 -> "1", true -> "true");
    /// C11 only: its oracles compare engines with each other and need no typed-core reference
    Retype(u8),
    /// with an attached RETE engine: a fact is inserted / the n-th inserted fact retracted there
    EngineInsert(u8),
    EngineRetract(u8),
    /// the caller reconfigures the long-lived engine (`set_config`); fresh engines are built with the
    /// configuration in force at the time of the query
    SetConfig { strategy: u8, max_solutions: usize, memo: bool, max_depth: Option<usize> },
    /// the caller sets one of its facts to null (C10 only: its query-level clause compares the facts before
    /// and after and needs no reference semantics for null)
    SetFactNull(u8),
    /// `query_aggregate("count(?x) WHERE <goal>")` — or, malformed, `… WHERE ((` — on the long-lived engine
    /// (C11 only); the answer is compared with a fresh engine's, and it is one more query "asked first"
    QueryAggregate(u8, bool),
    /// the owner of the long-lived engine disables / re-enables a rule in its knowledge base and rebuilds the
    /// conclusion index; from then on 'the rule set' is the set of enabled rules
    ToggleRule(u8),
    /// the wall clock moves on by this many seconds (runs with dated rules)
    AdvanceClock(u8),
    /// the CALLER uses the undo-frame API on its own facts around its queries ("what if"): 0 begin, 1 roll back,
    /// 2 commit (no-ops when no caller frame is open). C11 only: a rolled-back write is a change of the caller's
    /// facts like any other, and the next answer must be a fresh engine's answer on the facts as they now stand
    CallerFrame(u8),
}

#[derive(Clone, Debug, Serialize, Deserialize, PartialEq)]
pub enum FrameOp {
    Begin,
    Commit,
    Rollback,
    Set(u8, i64),
    SetNested(u8, i64),
    Remove(u8),
    /// `set("k2.x", v)`: a FLAT key that merely looks like a path below another key
    SetDotted(u8, i64),
    RemoveDotted(u8),
    /// `set(k, v)` with a value of another JSON kind — null, false, zero, empty string / array / object:
    /// the values an implementation might be tempted to use as its own "absent" marker
    SetKind(u8, u8),
    /// `set_nested("k1", v)`: a path of one segment — creates or overwrites the top-level key
    SetNestedPlain(u8, i64),
    /// `set_nested("k2.a.b", v)`: defined only when k2 and k2.a are objects
    SetNestedDeep(u8, i64),
    /// `remove("k2.a")`: no flat key of that name exists; k2 may be an object that has a member `a`.  The
    /// property does not say whether such a call reaches into the object — it may do nothing or drop the member
    /// — only that a rolled-back frame undoes whatever it did
    RemoveMember(u8),
}

#[derive(Clone, Debug, Serialize, Deserialize)]
pub enum BwdTrace {
    Search {
        hash_seed: u64,
        alt_hash_seeds: Vec<u64>,
        types: Vec<Ty>,
        init: Vec<u8>,
        rules: Vec<BRule>,
        goals: Vec<BAtom>,
        max_depth: usize,
        strategy: u8,
        max_solutions: usize,
        memo: bool,
        attach_rete: bool,
        ops: Vec<BOp>,
        /// the five fields live on three objects (F, G, H) instead of one
        #[serde(default)]
        objects: bool,
        /// the third value of plain string fields is the empty string
        #[serde(default)]
        empty: bool,
    },
    Frames {
        hash_seed: u64,
        ops: Vec<FrameOp>,
    },
}

pub struct BwdWorld;

type Snapshot = BTreeMap<String, Value>;

thread_local! {
    /// objects mode of the run executing on this thread: the five fields on one object `F` (false), or
    /// spread over three objects `F`, `G`, `H` (true) — candidate lookup goes by object
    static OBJECTS: std::cell::Cell<bool> = const { std::cell::Cell::new(false) };
    /// the third value of plain string fields is the EMPTY string instead of "w" (trace field `empty`)
    static EMPTY: std::cell::Cell<bool> = const { std::cell::Cell::new(false) };
}

fn str_val(lit: u8) -> &'static str {
    if EMPTY.with(|e| e.get()) {
        ["u", "v", ""][lit as usize % 3]
    } else {
        ["u", "v", "w"][lit as usize % 3]
    }
}

fn fkey(f: u8) -> String {
    let f = f as usize % NF;
    if OBJECTS.with(|o| o.get()) {
        format!("{}.f{f}", ["F", "F", "G", "G", "H"][f])
    } else {
        format!("F.f{f}")
    }
}

fn lit_value(ty: Ty, lit: u8) -> Value {
    match ty {
        Ty::Bool => Value::Boolean(lit % 2 == 1),
        Ty::Str => Value::String(str_val(lit).to_string()),
        Ty::Int => Value::Integer((lit % 3) as i64),
        Ty::Text => Value::String(TEXT_VALUES[lit as usize % 3].to_string()),
    }
}

fn lit_text(ty: Ty, lit: u8) -> String {
    match ty {
        Ty::Bool => (lit % 2 == 1).to_string(),
        Ty::Str => format!("\"{}\"", str_val(lit)),
        Ty::Int => (lit % 3).to_string(),
        Ty::Text => format!("\"{}\"", TEXT_VALUES[lit as usize % 3]),
    }
}

fn op_of(ty: Ty, op: u8) -> (Operator, &'static str) {
    match ty {
        Ty::Int => match op % 6 {
            0 => (Operator::Equal, "=="),
            1 => (Operator::NotEqual, "!="),
            2 => (Operator::LessThan, "<"),
            3 => (Operator::LessThanOrEqual, "<="),
            4 => (Operator::GreaterThan, ">"),
            _ => (Operator::GreaterThanOrEqual, ">="),
        },
        Ty::Text => match op % 6 {
            0 => (Operator::Equal, "=="),
            1 => (Operator::NotEqual, "!="),
            2 => (Operator::StartsWith, "starts_with"),
            3 => (Operator::EndsWith, "ends_with"),
            4 => (Operator::Contains, "contains"),
            _ => (Operator::NotContains, "not_contains"),
        },
        _ => {
            if op % 2 == 0 {
                (Operator::Equal, "==")
            } else {
                (Operator::NotEqual, "!=")
            }
        }
    }
}

/// typed-core evaluation of an atom on a value of the field's own type
fn atom_on(ty: Ty, at: &BAtom, v: &Value) -> bool {
    let lit = lit_value(ty, at.lit);
    match (ty, v, &lit) {
        (Ty::Int, Value::Integer(a), Value::Integer(b)) => match at.op % 6 {
            0 => a == b,
            1 => a != b,
            2 => a < b,
            3 => a <= b,
            4 => a > b,
            _ => a >= b,
        },
        (Ty::Int, _, _) => false,
        (Ty::Text, v, _) if at.op % 6 >= 2 => {
            let (s, pat) = match (v, cond_lit(ty, at.op, at.lit)) {
                (Value::String(s), Value::String(p)) => (s.clone(), p),
                _ => return at.op % 6 == 5,
            };
            match at.op % 6 {
                2 => s.starts_with(&pat),
                3 => s.ends_with(&pat),
                4 => s.contains(&pat),
                _ => !s.contains(&pat),
            }
        }
        (Ty::Text, _, _) => {
            if at.op % 6 == 0 {
                *v == lit
            } else {
                *v != lit
            }
        }
        _ => {
            if at.op % 2 == 0 {
                *v == lit
            } else {
                *v != lit
            }
        }
    }
}

fn atom_holds(types: &[Ty], at: &BAtom, facts: &Snapshot) -> Option<bool> {
    let ty = types[at.field as usize % NF];
    facts.get(&fkey(at.field)).map(|v| atom_on(ty, at, v))
}

fn goal_text(types: &[Ty], g: &BAtom) -> String {
    let ty = types[g.field as usize % NF];
    format!("{} {} {}", fkey(g.field), op_of(ty, g.op).1, lit_text(ty, g.lit))
}

fn cond_group(types: &[Ty], c: &BCond) -> ConditionGroup {
    match c {
        BCond::Atom(a) => {
            let ty = types[a.field as usize % NF];
            ConditionGroup::single(Condition::new(fkey(a.field), op_of(ty, a.op).0, cond_lit(ty, a.op, a.lit)))
        }
        BCond::And(a, b) => ConditionGroup::and(cond_group(types, a), cond_group(types, b)),
        BCond::Or(a, b) => ConditionGroup::or(cond_group(types, a), cond_group(types, b)),
    }
}

fn atoms_of<'a>(c: &'a BCond, out: &mut Vec<&'a BAtom>) {
    match c {
        BCond::Atom(a) => out.push(a),
        BCond::And(a, b) | BCond::Or(a, b) => {
            atoms_of(a, out);
            atoms_of(b, out);
        }
    }
}

fn is_conjunctive(c: &BCond) -> bool {
    match c {
        BCond::Atom(_) => true,
        BCond::And(a, b) => is_conjunctive(a) && is_conjunctive(b),
        BCond::Or(..) => false,
    }
}

fn build_kb(types: &[Ty], rules: &[BRule]) -> KnowledgeBase {
    let kb = KnowledgeBase::new("bwd");
    for (i, r) in rules.iter().enumerate() {
        let mut actions: Vec<ActionType> = r
            .sets
            .iter()
            .map(|(f, l)| ActionType::Set { field: fkey(*f), value: lit_value(types[*f as usize % NF], *l) })
            .collect();
        for (t, src) in &r.copies {
            actions.push(ActionType::Set { field: fkey(*t), value: Value::Expression(fkey(*src)) });
        }
        for f in &r.retracts {
            actions.push(ActionType::Retract { object: fkey(*f) });
        }
        if r.appends {
            actions.push(ActionType::Append { field: "Aux.list".to_string(), value: Value::Integer(1) });
        }
        if r.fails {
            actions.push(ActionType::MethodCall { object: "Ghost".to_string(), method: "poke".to_string(), args: vec![] });
        }
        let mut rule = Rule::new(format!("R{i}"), cond_group(types, &r.cond), actions);
        rule.no_loop = r.no_loop;
        if let Some(k) = r.effective_in {
            use chrono::TimeZone;
            if let Some(t) = chrono::Utc.timestamp_millis_opt((BWD_CLOCK_BASE_MS + k as u64 * 1000) as i64).single() {
                rule = rule.with_date_effective(t);
            }
        }
        let _ = kb.add_rule(rule);
    }
    kb
}

/// the knowledge base with some rules disabled (the same calls the long-lived engine's owner makes)
fn build_kb_with(types: &[Ty], rules: &[BRule], enabled: &[bool]) -> KnowledgeBase {
    let kb = build_kb(types, rules);
    for (i, e) in enabled.iter().enumerate() {
        if !*e {
            let _ = kb.set_rule_enabled(&format!("R{i}"), false);
        }
    }
    kb
}

fn strategy_of(s: u8) -> SearchStrategy {
    match s % 3 {
        0 => SearchStrategy::DepthFirst,
        1 => SearchStrategy::BreadthFirst,
        _ => SearchStrategy::Iterative,
    }
}

fn snapshot(facts: &Facts) -> Snapshot {
    facts.get_all_facts().into_iter().collect()
}

fn facts_from(s: &Snapshot) -> Facts {
    let f = Facts::new();
    for (k, v) in s {
        f.set(k, v.clone());
    }
    f
}

/// over-approximating forward closure: per field the set of values any rule sequence could give it
fn closure(types: &[Ty], rules: &[BRule], start: &Snapshot) -> BTreeMap<u8, Vec<Value>> {
    let mut d: BTreeMap<u8, Vec<Value>> = BTreeMap::new();
    for f in 0..NF as u8 {
        if let Some(v) = start.get(&fkey(f)) {
            d.insert(f, vec![v.clone()]);
        } else {
            d.insert(f, vec![]);
        }
    }
    fn sat(types: &[Ty], c: &BCond, d: &BTreeMap<u8, Vec<Value>>) -> bool {
        match c {
            BCond::Atom(a) => {
                let ty = types[a.field as usize % NF];
                let vals = &d[&(a.field % NF as u8)];
                // a missing field reads as null: `!=` is then true, everything else false
                if vals.is_empty() {
                    // (the string operators on a missing field: not modelled — the closure over-approximates)
                    return a.op % nops(ty) == 1 || (ty == Ty::Text && a.op % 6 >= 2);
                }
                vals.iter().any(|v| atom_on(ty, a, v))
            }
            BCond::And(a, b) => sat(types, a, d) && sat(types, b, d),
            BCond::Or(a, b) => sat(types, a, d) || sat(types, b, d),
        }
    }
    loop {
        let mut changed = false;
        for r in rules {
            if sat(types, &r.cond, &d) {
                for (f, l) in &r.sets {
                    let v = lit_value(types[*f as usize % NF], *l);
                    let e = d.get_mut(&(*f % NF as u8)).unwrap();
                    if !e.contains(&v) {
                        e.push(v);
                        changed = true;
                    }
                }
            }
        }
        if !changed {
            break;
        }
    }
    d
}

/// EXACT forward closure: every fact state (the five fields) some sequence of rule firings reaches from
/// `start` — a rule fires in a state in which its condition holds and applies its assignments in order.
/// Rules whose action list errors midway are treated as firing completely (a superset: their writes are
/// rolled back in reality). At most 3^5 states. None if a field is missing.
fn reachable(types: &[Ty], rules: &[BRule], start: &Snapshot) -> Option<BTreeSet<Vec<String>>> {
    let mut init: Vec<Value> = Vec::new();
    for f in 0..NF as u8 {
        init.push(start.get(&fkey(f))?.clone());
    }
    fn holds(types: &[Ty], c: &BCond, st: &[Value]) -> bool {
        match c {
            BCond::Atom(a) => atom_on(types[a.field as usize % NF], a, &st[a.field as usize % NF]),
            BCond::And(a, b) => holds(types, a, st) && holds(types, b, st),
            BCond::Or(a, b) => holds(types, a, st) || holds(types, b, st),
        }
    }
    let key = |st: &[Value]| -> Vec<String> { st.iter().map(|v| format!("{v:?}")).collect() };
    let mut seen: BTreeSet<Vec<String>> = BTreeSet::new();
    let mut work = vec![init.clone()];
    seen.insert(key(&init));
    while let Some(st) = work.pop() {
        for r in rules {
            if holds(types, &r.cond, &st) {
                let mut nx = st.clone();
                for (f, l) in &r.sets {
                    nx[*f as usize % NF] = lit_value(types[*f as usize % NF], *l);
                }
                if seen.insert(key(&nx)) {
                    work.push(nx);
                }
            }
        }
        if seen.len() > 2000 {
            return None; // cannot happen with 3^5 states; a guard against a harness slip
        }
    }
    Some(seen)
}

/// Horn-monotone programs: every field is assigned at most one value by the rules and every atom
/// on an assigned field is `field == that value`; there derivations never undo each other and the
/// minimal derivation height of a goal is well defined. None = the program is not of that shape
/// or the goal has no derivation through conjunctive rules.
fn min_height(types: &[Ty], rules: &[BRule], start: &Snapshot, goal: &BAtom) -> Option<Option<usize>> {
    let mut assigned: BTreeMap<u8, u8> = BTreeMap::new();
    for r in rules {
        for (f, l) in &r.sets {
            let f = *f % NF as u8;
            let l = *l % if types[f as usize] == Ty::Bool { 2 } else { 3 };
            if let Some(prev) = assigned.get(&f) {
                if *prev != l {
                    return None;
                }
            }
            assigned.insert(f, l);
        }
    }
    for r in rules {
        let mut ats = Vec::new();
        atoms_of(&r.cond, &mut ats);
        for a in ats {
            let f = a.field % NF as u8;
            if let Some(l) = assigned.get(&f) {
                let ty = types[f as usize];
                let eq = a.op % nops(ty) == 0;
                if !eq || lit_value(ty, a.lit) != lit_value(ty, *l) {
                    return None;
                }
            }
        }
    }
    // all five fields must be present (a missing field reads as null)
    for f in 0..NF as u8 {
        start.get(&fkey(f))?;
    }
    // height of "field f holds its assigned value"
    let mut h: BTreeMap<u8, usize> = BTreeMap::new();
    for (f, l) in &assigned {
        if start.get(&fkey(*f)) == Some(&lit_value(types[*f as usize], *l)) {
            h.insert(*f, 0);
        }
    }
    let atom_h = |a: &BAtom, h: &BTreeMap<u8, usize>| -> Option<usize> {
        let f = a.field % NF as u8;
        if assigned.contains_key(&f) {
            h.get(&f).cloned()
        } else if atom_holds(types, a, start) == Some(true) {
            Some(0)
        } else {
            None
        }
    };
    loop {
        let mut changed = false;
        for r in rules {
            if !is_conjunctive(&r.cond) || r.fails {
                continue;
            }
            let mut ats = Vec::new();
            atoms_of(&r.cond, &mut ats);
            let hs: Option<Vec<usize>> = ats.iter().map(|a| atom_h(a, &h)).collect();
            if let Some(hs) = hs {
                let mine = 1 + hs.into_iter().max().unwrap_or(0);
                for (f, _) in &r.sets {
                    let f = *f % NF as u8;
                    if h.get(&f).map_or(true, |old| mine < *old) {
                        h.insert(f, mine);
                        changed = true;
                    }
                }
            }
        }
        if !changed {
            break;
        }
    }
    // the goal atom: true on the initial facts (height 0), or true of the assigned value once derived
    if atom_holds(types, goal, start) == Some(true) {
        return Some(Some(0));
    }
    let gf = goal.field % NF as u8;
    if let Some(l) = assigned.get(&gf) {
        let ty = types[gf as usize];
        if atom_on(ty, goal, &lit_value(ty, *l)) {
            return Some(h.get(&gf).cloned());
        }
    }
    Some(None)
}

/// Height of the shortest *chain* derivation of `goal`: the goal holds on the initial facts (0), or a
/// rule with ONE condition atom (trivially conjunctive), whose action list does not fail and leaves the
/// goal's field with a value satisfying the goal, has a condition atom with a chain derivation one
/// lower. Chains cannot interfere with themselves — every step needs only what the step before it just
/// established — so this is well defined for every program, state machines (`F == 1 -> F = 2`) included.
fn chain_height(types: &[Ty], rules: &[BRule], start: &Snapshot, goal: &BAtom) -> Option<usize> {
    for f in 0..NF as u8 {
        start.get(&fkey(f))?;
    }
    let norm = |a: &BAtom| -> (u8, u8, u8) {
        let f = a.field % NF as u8;
        let ty = types[f as usize];
        (f, a.op % nops(ty), a.lit % if ty == Ty::Bool { 2 } else { 3 })
    };
    let mut h: BTreeMap<(u8, u8, u8), usize> = BTreeMap::new();
    let mut all: Vec<BAtom> = Vec::new();
    for f in 0..NF as u8 {
        for op in 0..6u8 {
            for lit in 0..3u8 {
                all.push(BAtom { field: f, op, lit });
            }
        }
    }
    for a in &all {
        if atom_holds(types, a, start) == Some(true) {
            h.insert(norm(a), 0);
        }
    }
    loop {
        let mut changed = false;
        for r in rules {
            let c = match &r.cond {
                BCond::Atom(c) if !r.fails => c,
                _ => continue,
            };
            let hc = match h.get(&norm(c)) {
                Some(x) => *x,
                None => continue,
            };
            // the value each assigned field is left with (the last assignment wins)
            let mut eff: BTreeMap<u8, u8> = BTreeMap::new();
            for (f, l) in &r.sets {
                eff.insert(*f % NF as u8, *l);
            }
            for (f, l) in eff {
                let ty = types[f as usize];
                let v = lit_value(ty, l);
                for a in all.iter().filter(|a| a.field == f) {
                    if atom_on(ty, a, &v) && h.get(&norm(a)).map_or(true, |old| hc + 1 < *old) {
                        h.insert(norm(a), hc + 1);
                        changed = true;
                    }
                }
            }
        }
        if !changed {
            break;
        }
    }
    h.get(&norm(goal)).cloned()
}

struct QueryOut {
    provable: bool,
    after: Snapshot,
    depth_before: usize,
    depth_after: usize,
    /// search steps the query took
    steps: u64,
}

/// Steps (goal expansions, told by the guarded hook in the search loops) one query may take. The
/// search is exponential in max_depth on some rule sets; a run that would exceed the budget is
/// abandoned as inconclusive — deterministically, by count, never by wall-clock.
const SEARCH_STEP_BUDGET: u64 = 60_000;
/// With an attached RETE engine every rule execution scans that engine's working memory, which grows by one
/// logical fact per execution (roll-backs never retract there): the cost of a step grows with the steps
/// taken, so the budget is much smaller (a thorough batch met a run of more than ten minutes otherwise)
const SEARCH_STEP_BUDGET_WITH_RETE: u64 = 4_000;
const BUDGET: &str = "\u{0}search-step-budget-exhausted";

/// `query_aggregate` under the same step budget; None = budget exhausted (run abandoned)
fn run_aggregate(engine: &mut BackwardEngine, text: &str, facts: &mut Facts) -> Option<Result<String, String>> {
    rust_rule_engine::verif_hooks::set_step(Some(Box::new(|_site| budget::tick())));
    let r = budget::with_budget(SEARCH_STEP_BUDGET, || engine.query_aggregate(text, facts));
    rust_rule_engine::verif_hooks::set_step(None);
    match r {
        Ok(Ok(v)) => Some(Ok(format!("{v:?}"))),
        Ok(Err(e)) => Some(Err(e.to_string())),
        Err(p) if p.is::<budget::StepBudgetExceeded>() => None,
        Err(p) => Some(Err(format!("panicked: {}", panic_text(&p)))),
    }
}

fn run_query(engine: &mut BackwardEngine, goal: &str, facts: &mut Facts, rete: &Option<Arc<Mutex<IncrementalEngine>>>) -> Result<QueryOut, String> {
    let depth_before = facts.verif_undo_depth();
    rust_rule_engine::verif_hooks::set_step(Some(Box::new(|_site| budget::tick())));
    let spent_before = budget::spent();
    let r = budget::with_budget(if rete.is_some() { SEARCH_STEP_BUDGET_WITH_RETE } else { SEARCH_STEP_BUDGET }, || match rete {
        Some(e) => engine.query_with_rete_engine(goal, facts, Some(e.clone())),
        None => engine.query(goal, facts),
    });
    rust_rule_engine::verif_hooks::set_step(None);
    let steps = budget::spent() - spent_before;
    match r {
        Ok(Ok(q)) => Ok(QueryOut { provable: q.provable, after: snapshot(facts), depth_before, depth_after: facts.verif_undo_depth(), steps }),
        Ok(Err(e)) => Err(format!("query returned an error: {e}")),
        Err(p) if p.is::<budget::StepBudgetExceeded>() => Err(BUDGET.to_string()),
        Err(p) => Err(format!("query panicked: {}", panic_text(&p))),
    }
}

#[allow(clippy::too_many_arguments)]
fn judge(
    prop: &str,
    site: &str,
    types: &[Ty],
    rules: &[BRule],
    goal: &BAtom,
    before: &Snapshot,
    out: &QueryOut,
    max_depth: usize,
    strategy: u8,
    max_solutions: usize,
    step: usize,
    obs: &mut Obs,
    whose: &str,
) -> Result<(), Violation> {
    let gt = goal_text(types, goal);
    if prop == "C09" {
        if out.provable {
            // sound.returned
            if atom_holds(types, goal, &out.after) != Some(true) {
                let sig = if max_solutions > 1 { "provable-but-goal-false-in-returned-facts-multi-solution" } else { "provable-but-goal-false-in-returned-facts" };
                let v = Violation::new("C09", "sound.returned", site, sig, format!("{whose}: `{gt}` reported provable, but in the facts handed back {} = {:?}", fkey(goal.field), out.after.get(&fkey(goal.field))), step);
                if !obs.is_known(&v) {
                    return Err(v);
                }
            }
            // sound.closure
            let d = closure(types, rules, before);
            let ty = types[goal.field as usize % NF];
            let vals = &d[&(goal.field % NF as u8)];
            let in_closure = if vals.is_empty() { goal.op % nops(ty) == 1 } else { vals.iter().any(|v| atom_on(ty, goal, v)) };
            if !in_closure {
                let v = Violation::new("C09", "sound.closure", site, "provable-but-not-in-forward-closure", format!("{whose}: `{gt}` reported provable, but no sequence of rule firings from the initial facts can make it true (values {} can take: {vals:?})", fkey(goal.field)), step);
                if !obs.is_known(&v) {
                    return Err(v);
                }
            }
            // sound.reachable: every execution in backward chaining is a forward firing from the facts as they
            // stand, and roll-backs return to earlier states — so the facts handed back are a state the rule set
            // can reach from the initial facts (an exact closure; the clause above over-approximates per field)
            if let Some(reach) = reachable(types, rules, before) {
                let st: Option<Vec<String>> = (0..NF as u8).map(|f| out.after.get(&fkey(f)).map(|v| format!("{v:?}"))).collect();
                if let Some(st) = st {
                    obs.count("probe.reachable_states_enumerated");
                    if !reach.contains(&st) {
                        let v = Violation::new("C09", "sound.closure", site, "facts-handed-back-are-not-a-reachable-state", format!("{whose}: `{gt}` reported provable; the facts handed back {st:?} are not among the {} fact states any sequence of rule firings reaches from the initial facts", reach.len()), step);
                        if !obs.is_known(&v) {
                            return Err(v);
                        }
                    }
                }
            }
            obs.count("probe.provable_query");
        }
        // complete.dfs
        if strategy % 3 == 0 {
            if let Some(h) = min_height(types, rules, before, goal) {
                obs.count("probe.complete_clause_applicable");
                if let Some(h) = h {
                    if h >= 2 {
                        obs.count("probe.derivation_of_height_2_or_more");
                    }
                    if h <= max_depth && !out.provable {
                        let ty = types[goal.field as usize % NF];
                        let sig = match ty {
                            Ty::Int => "bounded-derivation-not-found-integer-goal",
                            _ => "bounded-derivation-not-found",
                        };
                        let v = Violation::new("C09", "complete.dfs", site, sig, format!("{whose}: `{gt}` has a derivation of height {h} through conjunctive rules (max_depth {max_depth}) but DFS reported it not provable"), step);
                        if !obs.is_known(&v) {
                            return Err(v);
                        }
                    }
                    if h > max_depth {
                        obs.count("probe.derivation_deeper_than_max_depth");
                    }
                }
            }
        }
    }
    if prop == "C09" && strategy % 3 == 0 {
        // complete.dfs, second instance: chain derivations (any program, state machines included)
        if let Some(h) = chain_height(types, rules, before, goal) {
            if h >= 2 {
                obs.count("probe.chain_derivation_of_height_2_or_more");
            }
            if h >= 1 && h <= max_depth && !out.provable {
                let v = Violation::new("C09", "complete.dfs", site, "chain-derivation-not-found", format!("{whose}: `{gt}` has a chain derivation of height {h} (single-condition rules, max_depth {max_depth}) but DFS reported it not provable"), step);
                if !obs.is_known(&v) {
                    return Err(v);
                }
            }
        }
    }
    if prop == "C10" {
        if !out.provable {
            obs.count("probe.unprovable_query");
            if out.after != *before {
                let changed: Vec<String> = before.keys().chain(out.after.keys()).filter(|k| before.get(*k) != out.after.get(*k)).cloned().collect::<BTreeSet<_>>().into_iter().collect();
                let sig = match strategy % 3 {
                    1 => "failed-bfs-query-left-derived-facts",
                    _ => "failed-query-left-derived-facts",
                };
                let v = Violation::new("C10", "fail.untouched", site, sig, format!("{whose}: `{gt}` reported not provable, yet the caller's facts changed at {changed:?}: before {:?}, after {:?}", changed.iter().map(|k| before.get(k)).collect::<Vec<_>>(), changed.iter().map(|k| out.after.get(k)).collect::<Vec<_>>()), step);
                if !obs.is_known(&v) {
                    return Err(v);
                }
            }
            if closure(types, rules, before).iter().any(|(f, vals)| vals.len() > 1 && *f != goal.field) {
                obs.count("probe.failed_query_with_derivable_intermediate_facts");
            }
        }
        if out.depth_after != out.depth_before {
            obs.count("probe.undo_frames_left_open_by_query");
        }
    }
    Ok(())
}

#[allow(clippy::too_many_arguments)]
fn run_search(
    prop: &str,
    types: &[Ty],
    init: &[u8],
    rules: &[BRule],
    goals: &[BAtom],
    max_depth: usize,
    strategy: u8,
    max_solutions: usize,
    memo: bool,
    attach_rete: bool,
    ops: &[BOp],
    alt_hash_seeds: &[u64],
    obs: &mut Obs,
) -> Result<(), Violation> {
    fn site_of(strategy: u8) -> &'static str {
        match strategy % 3 {
            0 => "BackwardEngine::query (DepthFirst)",
            1 => "BackwardEngine::query (BreadthFirst)",
            _ => "BackwardEngine::query (Iterative)",
        }
    }
    fn mkcfg(max_depth: usize, strategy: u8, max_solutions: usize, memo: bool) -> BackwardConfig {
        BackwardConfig { max_depth, strategy: strategy_of(strategy), enable_memoization: memo, max_solutions }
    }
    // the configuration in force; `SetConfig` changes it mid-history
    let (mut max_depth, mut strategy, mut max_solutions, mut memo) = (max_depth, strategy, max_solutions, memo);
    let mut engine = BackwardEngine::with_config(build_kb(types, rules), mkcfg(max_depth, strategy, max_solutions, memo));
    // which rules are enabled; `ToggleRule` changes it mid-history
    let mut enabled: Vec<bool> = vec![true; rules.len()];
    let rete: Option<Arc<Mutex<IncrementalEngine>>> = if attach_rete { Some(Arc::new(Mutex::new(IncrementalEngine::new()))) } else { None };
    let mut rete_handles: Vec<FactHandle> = Vec::new();
    let mut facts = Facts::new();
    for f in 0..NF as u8 {
        facts.set(&fkey(f), lit_value(types[f as usize], init[f as usize]));
    }
    facts.set("Aux.n", Value::Integer(0));
    let mut queries = 0;
    if rules.iter().any(|r| r.fails) {
        obs.count("fault.rule_action_errors_midway");
    }
    if rules.iter().any(|r| !r.copies.is_empty()) {
        obs.count("probe.rule_action_that_reads_a_fact");
    }
    if rules.iter().any(|r| !r.retracts.is_empty()) {
        obs.count("probe.rule_action_that_retracts_a_fact");
    }
    if rules.iter().any(|r| r.appends) {
        facts.set("Aux.list", Value::Array(vec![Value::Integer(0)]));
        obs.count("probe.rule_action_that_appends_to_an_array_fact");
    }
    let mut asked: BTreeSet<String> = BTreeSet::new();
    let mut caller_frames = 0usize;
    // runs with dated rules have a simulated wall clock (nothing in the pinned backward search reads a clock; a
    // search that does, through a plain Utc::now(), sees this one — seam S1d)
    let dated = prop == "C11" && !attach_rete && rules.iter().any(|r| r.effective_in.is_some());
    if dated {
        clock::install(BWD_CLOCK_BASE_MS);
        obs.count("probe.program_with_a_dated_rule");
    }
    for (step, op) in ops.iter().enumerate() {
        let site = site_of(strategy);
        let active_rules: Vec<BRule> = rules.iter().zip(&enabled).filter(|(_, e)| **e).map(|(r, _)| r.clone()).collect();
        let active: &[BRule] = &active_rules;
        match op {
            BOp::ToggleRule(i) => {
                if !rules.is_empty() {
                    let k = *i as usize % rules.len();
                    enabled[k] = !enabled[k];
                    let _ = engine.knowledge_base().set_rule_enabled(&format!("R{k}"), enabled[k]);
                    engine.rebuild_index();
                    obs.count(if enabled[k] { "probe.rule_enabled_again_mid_history" } else { "probe.rule_disabled_mid_history" });
                }
            }
            BOp::SetConfig { strategy: st, max_solutions: ms, memo: me, max_depth: md } => {
                if md.map_or(false, |d| d != max_depth) {
                    obs.count("probe.reconfigured_with_another_max_depth");
                } else {
                    obs.count("probe.reconfigured_with_the_same_max_depth");
                }
                strategy = *st;
                max_solutions = (*ms).max(1);
                memo = *me;
                if let Some(d) = md {
                    max_depth = *d;
                }
                engine.set_config(mkcfg(max_depth, strategy, max_solutions, memo));
            }
            BOp::SetFactNull(f) => {
                if prop == "C10" {
                    facts.set(&fkey(*f), Value::Null);
                    obs.count("probe.caller_set_a_fact_to_null");
                }
            }
            BOp::QueryAggregate(g, malformed) => {
                if prop != "C11" || goals.is_empty() {
                    continue;
                }
                let goal = &goals[*g as usize % goals.len()];
                // one well-formed aggregate in three is over the NEGATED pattern
                let text = if *malformed { "count(?x) WHERE ((".to_string() } else if (*g / 3) % 3 == 1 { format!("count(?x) WHERE NOT {}", goal_text(types, goal)) } else { format!("count(?x) WHERE {}", goal_text(types, goal)) };
                let before = snapshot(&facts);
                let mine = match run_aggregate(&mut engine, &text, &mut facts) {
                    Some(r) => r,
                    None => {
                        obs.count("probe.run_abandoned_search_step_budget_exhausted");
                        return Ok(());
                    }
                };
                let mut e2 = BackwardEngine::with_config(build_kb_with(types, rules, &enabled), mkcfg(max_depth, strategy, max_solutions, memo));
                let mut f2 = facts_from(&before);
                let fresh = match run_aggregate(&mut e2, &text, &mut f2) {
                    Some(r) => r,
                    None => {
                        obs.count("probe.run_abandoned_search_step_budget_exhausted");
                        return Ok(());
                    }
                };
                obs.count(if mine.is_err() { "probe.aggregate_query_returned_an_error" } else { "probe.aggregate_query_answered" });
                if mine.is_ok() != fresh.is_ok() || (mine.is_ok() && mine != fresh) {
                    let v = Violation::new("C11", "history.independent", site, "aggregate-answer-differs-from-fresh-engine", format!("`{text}`: the long-lived engine answers {mine:?}, a freshly built engine on a copy of the same facts {fresh:?}"), step);
                    if !obs.is_known(&v) {
                        return Err(v);
                    }
                }
            }
            BOp::SetFact(f, l) => {
                facts.set(&fkey(*f), lit_value(types[*f as usize % NF], *l));
                obs.count("probe.caller_changed_a_fact");
            }
            BOp::AdvanceClock(secs) => {
                if dated {
                    clock::advance_ms(*secs as u64 * 1000);
                    obs.count("probe.wall_clock_moved_between_queries");
                }
            }
            BOp::CallerFrame(k) => {
                if prop == "C11" || prop == "C10" {
                    match k % 3 {
                        0 => {
                            facts.begin_undo_frame();
                            caller_frames += 1;
                        }
                        1 if caller_frames > 0 => {
                            let before = snapshot(&facts);
                            facts.rollback_undo_frame();
                            caller_frames -= 1;
                            if snapshot(&facts) != before {
                                obs.count("probe.caller_rolled_back_a_frame_that_had_changed_facts");
                            }
                        }
                        2 if caller_frames > 0 => {
                            facts.commit_undo_frame();
                            caller_frames -= 1;
                        }
                        _ => {}
                    }
                }
            }
            BOp::Retype(f) => {
                if prop == "C11" {
                    let k = fkey(*f);
                    let newv = match facts.get(&k) {
                        Some(Value::Integer(i)) => Some(Value::String(i.to_string())),
                        Some(Value::Boolean(b)) => Some(Value::String(b.to_string())),
                        Some(Value::String(s)) => Some(match s.parse::<i64>() {
                            Ok(i) => Value::Integer(i),
                            Err(_) => match s.as_str() {
                                "true" => Value::Boolean(true),
                                "false" => Value::Boolean(false),
                                _ => Value::String(format!("{s}")),
                            },
                        }),
                        _ => None,
                    };
                    if let Some(v) = newv {
                        facts.set(&k, v);
                        obs.count("probe.fact_retyped_same_rendering");
                    }
                }
            }
            BOp::RemoveAux => {
                facts.remove("Aux.n");
            }
            BOp::AssertAux(n) => facts.set("Aux.n", Value::Integer(*n as i64)),
            BOp::EngineInsert(n) => {
                if let Some(e) = &rete {
                    let mut d = TypedFacts::new();
                    d.set("f0", *n as i64);
                    rete_handles.push(e.lock().unwrap().insert("F".to_string(), d));
                }
            }
            BOp::EngineRetract(n) => {
                if let Some(e) = &rete {
                    if !rete_handles.is_empty() {
                        let h = rete_handles[*n as usize % rete_handles.len()];
                        let _ = e.lock().unwrap().retract(h);
                        obs.count("probe.retraction_in_attached_engine");
                    }
                }
            }
            BOp::Query(g) | BOp::QueryNot(g) => {
                if goals.is_empty() {
                    continue;
                }
                let negated = matches!(op, BOp::QueryNot(_));
                // negated queries need no reference semantics for C11 (engines are compared with each other) nor
                // for C10 (facts before and after a failed query are compared); C09's clauses do
                if negated && prop == "C09" {
                    continue;
                }
                let goal = &goals[*g as usize % goals.len()];
                let gt = if negated { format!("NOT {}", goal_text(types, goal)) } else { goal_text(types, goal) };
                if negated {
                    obs.count("probe.negated_query");
                }
                let before = snapshot(&facts);
                if !asked.insert(gt.clone()) {
                    obs.count("probe.same_query_asked_again");
                }
                let out = match run_query(&mut engine, &gt, &mut facts, &rete) {
                    Ok(o) => o,
                    Err(e) if e == BUDGET => {
                        obs.count("probe.run_abandoned_search_step_budget_exhausted");
                        return Ok(());
                    }
                    Err(e) => return Err(Violation::new(prop, "query.returns", site, "query-error-or-panic", format!("`{gt}`: {e}"), step)),
                };
                queries += 1;
                for (n, name) in [(100u64, "probe.search_took_100_steps_or_more"), (10_000, "probe.search_took_10000_steps_or_more")] {
                    if out.steps >= n {
                        obs.count(name);
                    }
                }
                obs.fp_str(&format!("{}|{:?}", out.provable, out.after));
                judge(prop, site, types, active, goal, &before, &out, max_depth, strategy, max_solutions, step, obs, "long-lived engine", )?;
                // a freshly built engine on a deep copy of the facts as they stood
                let fresh_here = {
                    let mut e2 = BackwardEngine::with_config(build_kb_with(types, rules, &enabled), mkcfg(max_depth, strategy, max_solutions, memo));
                    let mut f2 = facts_from(&before);
                    let rete2: Option<Arc<Mutex<IncrementalEngine>>> = if attach_rete { Some(Arc::new(Mutex::new(IncrementalEngine::new()))) } else { None };
                    match run_query(&mut e2, &gt, &mut f2, &rete2) {
                        Ok(o) => o,
                        Err(e) if e == BUDGET => {
                            obs.count("probe.run_abandoned_search_step_budget_exhausted");
                            return Ok(());
                        }
                        Err(e) => return Err(Violation::new(prop, "query.returns", site, "query-error-or-panic", format!("fresh engine, `{gt}`: {e}"), step)),
                    }
                };
                judge(prop, site, types, active, goal, &before, &fresh_here, max_depth, strategy, max_solutions, step, obs, "fresh engine")?;
                if prop == "C11" && fresh_here.provable != out.provable {
                    let sig = if memo && queries > 1 { "long-lived-engine-disagrees-with-fresh-engine-memoisation-on" } else { "long-lived-engine-disagrees-with-fresh-engine" };
                    let v = Violation::new("C11", "history.independent", site, sig, format!("query #{queries} `{gt}`: the long-lived engine says provable = {}, a freshly built engine on a copy of the same facts says {}", out.provable, fresh_here.provable), step);
                    if !obs.is_known(&v) {
                        return Err(v);
                    }
                }
                // fresh engines under further hash seeds
                let mut verdicts: Vec<(u64, bool)> = Vec::new();
                for hs in alt_hash_seeds {
                    let (types2, rules2, enabled2, before2, gt2, cfg2) = (types.to_vec(), rules.to_vec(), enabled.clone(), before.clone(), gt.clone(), mkcfg(max_depth, strategy, max_solutions, memo));
                    let objects2 = OBJECTS.with(|o| o.get());
                    let empty2 = EMPTY.with(|e| e.get());
                    let now2 = if dated { Some(clock::now_ms()) } else { None };
                    let r = hashseed::on_seeded_thread(*hs, move || {
                        OBJECTS.with(|o| o.set(objects2));
                        EMPTY.with(|e| e.set(empty2));
                        if let Some(ms) = now2 {
                            clock::install(ms);
                        }
                        let mut e3 = BackwardEngine::with_config(build_kb_with(&types2, &rules2, &enabled2), cfg2);
                        let mut f3 = facts_from(&before2);
                        let rete3: Option<Arc<Mutex<IncrementalEngine>>> = if attach_rete { Some(Arc::new(Mutex::new(IncrementalEngine::new()))) } else { None };
                        run_query(&mut e3, &gt2, &mut f3, &rete3)
                    });
                    match r {
                        Ok(Ok(o)) => {
                            judge(prop, site, types, active, goal, &before, &o, max_depth, strategy, max_solutions, step, obs, &format!("fresh engine under hash seed {hs}"))?;
                            verdicts.push((*hs, o.provable));
                            if o.after != fresh_here.after {
                                obs.count("probe.returned_facts_differ_between_hash_seeds");
                            }
                            obs.count("probe.alt_hash_seed_query");
                        }
                        Ok(Err(e)) if e == BUDGET => {
                            obs.count("probe.run_abandoned_search_step_budget_exhausted");
                            return Ok(());
                        }
                        Ok(Err(e)) => return Err(Violation::new(prop, "query.returns", site, "query-error-or-panic", format!("fresh engine under hash seed {hs}, `{gt}`: {e}"), step)),
                        Err(_) => return Err(Violation::new(prop, "query.returns", site, "query-error-or-panic", format!("fresh engine under hash seed {hs}: thread died"), step)),
                    }
                }
                if prop == "C11" {
                    if let Some((hs, v)) = verdicts.iter().find(|(_, v)| *v != fresh_here.provable) {
                        let sig = match strategy % 3 {
                            1 => "verdict-depends-on-hash-seed-bfs",
                            0 => "verdict-depends-on-hash-seed-dfs",
                            _ => "verdict-depends-on-hash-seed-iterative",
                        };
                        let vio = Violation::new("C11", "seed.independent", site, sig, format!("`{gt}` on the same rules, facts and configuration: provable = {} in one process and {} under hash seed {hs}", fresh_here.provable, v), step);
                        if !obs.is_known(&vio) {
                            return Err(vio);
                        }
                    }
                }
            }
        }
    }
    obs.nontrivial = queries >= 1 && rules.len() >= 2;
    if rules.len() > 8 && queries >= 1 {
        obs.count("probe.program_of_more_than_8_rules");
    }
    if queries >= 2 {
        obs.count("probe.history_of_two_or_more_queries");
    }
    Ok(())
}

/// values of every JSON kind that could be mistaken for "nothing there"
fn kind_value(kind: u8) -> Value {
    match kind % 8 {
        0 | 1 => Value::Null,
        2 => Value::Boolean(false),
        3 => Value::Integer(0),
        4 => Value::Number(0.0),
        5 => Value::String(String::new()),
        6 => Value::Array(vec![]),
        _ => {
            // {"a": {}}: an object whose field `a` is an object again (deep set_nested paths can succeed)
            let mut o = HashMap::new();
            o.insert("a".to_string(), Value::Object(HashMap::new()));
            Value::Object(o)
        }
    }
}

fn run_frames(ops: &[FrameOp], obs: &mut Obs) -> Result<(), Violation> {
    let site = "Facts (undo frames)";
    let facts = Facts::new();
    let mut obj = HashMap::new();
    obj.insert("a".to_string(), Value::Integer(0));
    facts.set("k2", Value::Object(obj));
    facts.set("k0", Value::Integer(0));
    let mut model: Snapshot = snapshot(&facts);
    let mut stack: Vec<Snapshot> = Vec::new();
    let key = |k: u8| format!("k{}", k % 3);
    let mut max_nest = 0;
    for (step, op) in ops.iter().enumerate() {
        match op {
            FrameOp::Begin => {
                facts.begin_undo_frame();
                stack.push(model.clone());
                max_nest = max_nest.max(stack.len());
            }
            FrameOp::Commit => {
                facts.commit_undo_frame();
                if stack.pop().is_some() && !stack.is_empty() {
                    obs.count("probe.nested_frame_committed");
                }
            }
            FrameOp::Rollback => {
                facts.rollback_undo_frame();
                if let Some(s) = stack.pop() {
                    model = s;
                    obs.count("probe.frame_rolled_back");
                }
            }
            FrameOp::Set(k, v) => {
                facts.set(&key(*k), Value::Integer(*v));
                model.insert(key(*k), Value::Integer(*v));
            }
            FrameOp::SetNestedPlain(k, v) => {
                let r = facts.set_nested(&key(*k), Value::Integer(*v));
                if r.is_err() {
                    return Err(Violation::new("C10", "frames.transactional", site, "set-nested-single-segment-failed", format!("set_nested({}) failed: {r:?}", key(*k)), step));
                }
                model.insert(key(*k), Value::Integer(*v));
                obs.count("probe.set_nested_with_a_single_segment");
            }
            FrameOp::SetNestedDeep(k, v) => {
                let path = format!("{}.a.b", key(*k));
                let r = facts.set_nested(&path, Value::Integer(*v));
                let ok = match model.get_mut(&key(*k)) {
                    Some(Value::Object(o)) => match o.get_mut("a") {
                        Some(Value::Object(inner)) => {
                            inner.insert("b".to_string(), Value::Integer(*v));
                            true
                        }
                        _ => false,
                    },
                    _ => false,
                };
                if ok != r.is_ok() {
                    return Err(Violation::new("C10", "frames.transactional", site, if ok { "set-nested-on-object-failed" } else { "set-nested-on-non-object-succeeded" }, format!("set_nested({path}) returned {r:?}, the model expects ok = {ok}"), step));
                }
                if ok {
                    obs.count("probe.set_nested_two_levels_deep");
                }
            }
            FrameOp::SetKind(k, kind) => {
                let v = kind_value(*kind);
                if v == Value::Null {
                    obs.count("probe.null_value_written");
                }
                facts.set(&key(*k), v.clone());
                model.insert(key(*k), v);
            }
            FrameOp::SetNested(k, v) => {
                let path = format!("{}.a", key(*k));
                let r = facts.set_nested(&path, Value::Integer(*v));
                // defined only when the root is an object
                match model.get_mut(&key(*k)) {
                    Some(Value::Object(o)) => {
                        o.insert("a".to_string(), Value::Integer(*v));
                        if r.is_err() {
                            return Err(Violation::new("C10", "frames.transactional", site, "set-nested-on-object-failed", format!("set_nested({path}) failed on an object root: {r:?}"), step));
                        }
                    }
                    _ => {
                        if r.is_ok() {
                            return Err(Violation::new("C10", "frames.transactional", site, "set-nested-on-non-object-succeeded", format!("set_nested({path}) succeeded although {} is not an object", key(*k)), step));
                        }
                    }
                }
            }
            FrameOp::Remove(k) => {
                facts.remove(&key(*k));
                model.remove(&key(*k));
            }
            FrameOp::SetDotted(k, v) => {
                let dk = format!("{}.x", key(*k));
                facts.set(&dk, Value::Integer(*v));
                model.insert(dk, Value::Integer(*v));
                obs.count("probe.flat_dotted_key_written");
            }
            FrameOp::RemoveDotted(k) => {
                let dk = format!("{}.x", key(*k));
                facts.remove(&dk);
                model.remove(&dk);
            }
            FrameOp::RemoveMember(k) => {
                let dk = format!("{}.a", key(*k));
                facts.remove(&dk);
                obs.count("probe.remove_called_with_a_path_into_an_object");
                // either reading is admissible: nothing happens (the model as it is), or the member goes
                let mut reached = model.clone();
                if let Some(Value::Object(o)) = reached.get_mut(&key(*k)) {
                    if o.remove("a").is_some() && snapshot(&facts) == reached {
                        model = reached;
                        obs.count("probe.remove_with_a_path_dropped_the_member");
                    }
                }
            }
        }
        let got = snapshot(&facts);
        if got != model {
            let diff: Vec<String> = got.keys().chain(model.keys()).filter(|k| got.get(*k) != model.get(*k)).cloned().collect::<BTreeSet<_>>().into_iter().collect();
            let sig = match op {
                FrameOp::Rollback => {
                    if ops[..step].iter().any(|o| matches!(o, FrameOp::Commit)) {
                        "rollback-does-not-undo-writes-of-a-committed-nested-frame"
                    } else {
                        "rollback-does-not-restore-frame-start"
                    }
                }
                _ => "store-differs-from-model",
            };
            let v = Violation::new("C10", "frames.transactional", site, sig, format!("after {op:?} (step {step}) keys {diff:?} hold {:?}, expected {:?}", diff.iter().map(|k| got.get(k)).collect::<Vec<_>>(), diff.iter().map(|k| model.get(k)).collect::<Vec<_>>()), step);
            if !obs.is_known(&v) {
                return Err(v);
            }
            return Ok(());
        }
    }
    obs.nontrivial = max_nest >= 2;
    if max_nest >= 3 {
        obs.count("probe.three_or_more_frames_nested");
    }
    Ok(())
}

fn gen_search(rng: &mut Rng, hash_seed: u64, c11_ops: bool, with_negation: bool) -> BwdTrace {
    let domain = rng.usize(5); // 0 bool, 1 string, 2 integer, 3 mixed bool/string, 4 text (string operators) with some booleans
    let types: Vec<Ty> = (0..NF)
        .map(|_| match domain {
            0 => Ty::Bool,
            1 => Ty::Str,
            2 => Ty::Int,
            4 => *rng.pick(&[Ty::Text, Ty::Text, Ty::Text, Ty::Bool]),
            _ => *rng.pick(&[Ty::Bool, Ty::Str]),
        })
        .collect();
    let mut init: Vec<u8> = (0..NF).map(|_| rng.below(3) as u8).collect();
    let horn = rng.chance(1, 2);
    // chain mode (half of the Horn programs): rule k concludes field k from earlier fields, and the
    // assigned fields do not hold their value yet, so that real derivations of height 2.. are needed
    let chain = horn && rng.chance(1, 2);
    // one program in twelve has 9-14 rules (more candidates per goal than any other program); its depth
    // bound is kept small because the search is exponential in it
    let many_rules = rng.chance(1, 12);
    let nrules = if many_rules { 9 + rng.usize(6) } else { 1 + rng.usize(8) };
    // Horn-monotone mode: one value per assigned field, atoms on assigned fields are `== that value`
    let assigned_val: Vec<u8> = (0..NF).map(|_| rng.below(3) as u8).collect();
    // which fields rules may assign (the others are static)
    let nassign = 2 + rng.usize(3);
    if chain {
        for f in 0..nassign {
            let other = (assigned_val[f] + 1 + rng.below(2) as u8) % 3;
            // booleans have two values: make sure the initial one differs from the assigned one
            init[f] = if types[f] == Ty::Bool { (assigned_val[f] % 2) ^ 1 } else { other };
        }
    }
    let mut rules: Vec<BRule> = Vec::new();
    for ri in 0..nrules {
        let target = (ri % nassign) as u8;
        let gen_atom = |rng: &mut Rng| -> BAtom {
            let f = if chain && target > 0 && rng.chance(3, 4) { rng.below(target as u64) as u8 } else if chain { (nassign as u64 + rng.below((NF - nassign).max(1) as u64)).min(NF as u64 - 1) as u8 } else { rng.below(NF as u64) as u8 };
            if horn && (f as usize) < nassign {
                BAtom { field: f, op: 0, lit: assigned_val[f as usize] }
            } else {
                BAtom { field: f, op: rng.below(6) as u8, lit: rng.below(3) as u8 }
            }
        };
        let natoms = 1 + rng.usize(3);
        let mut cond = BCond::Atom(gen_atom(rng));
        for _ in 1..natoms {
            let a = BCond::Atom(gen_atom(rng));
            cond = if rng.chance(if horn { 9 } else { 2 }, if horn { 10 } else { 3 }) { BCond::And(Box::new(cond), Box::new(a)) } else { BCond::Or(Box::new(cond), Box::new(a)) };
        }
        let nsets = 1 + rng.usize(2);
        let sets: Vec<(u8, u8)> = (0..nsets)
            .map(|_| {
                let f = if chain { target } else { rng.below(nassign as u64) as u8 };
                (f, if horn { assigned_val[f as usize] } else { rng.below(3) as u8 })
            })
            .collect();
        let fails = rng.chance(1, 10);
        // C11 only: one rule in six also copies a fact into a field (an action that reads the store)
        let copies = if c11_ops && rng.chance(1, 6) {
            let t = rng.below(nassign as u64) as u8;
            let same: Vec<u8> = (0..NF as u8).filter(|x| *x != t && types[*x as usize] == types[t as usize]).collect();
            if same.is_empty() { vec![] } else { vec![(t, *rng.pick(&same))] }
        } else {
            vec![]
        };
        // C10 and C11 only: one rule in eight also retracts a fact (not the one it has just assigned)
        let retracts = if with_negation && rng.chance(1, 8) {
            let f = rng.below(NF as u64) as u8;
            if sets.iter().any(|(t, _): &(u8, u8)| *t % NF as u8 == f) { vec![] } else { vec![f] }
        } else {
            vec![]
        };
        rules.push(BRule { cond, sets, fails, copies, no_loop: rng.chance(1, 4), retracts, appends: with_negation && rng.chance(1, 10), effective_in: None });
    }
    // state-machine programs (a quarter of the non-Horn ones): field 0 is a state that rules move from
    // value to value (`F.f0 == a -> F.f0 = b`), field 1 an output concluded from a state
    // (`F.f0 == k -> F.f1 = v`); every condition is a single atom, so chain derivations abound — through
    // rules that test the very field they assign
    let machine = !horn && rng.chance(1, 4);
    let mut machine_goal: Option<BAtom> = None;
    if machine {
        let nvals: u8 = if types[0] == Ty::Bool { 2 } else { 3 };
        let mut m: Vec<BRule> = Vec::new();
        for _ in 0..2 + rng.usize(3) {
            let a = rng.below(nvals as u64) as u8;
            let b = (a + 1 + rng.below(nvals as u64 - 1) as u8) % nvals;
            // (on a text field every other transition tests the state with a string operator)
            let op = if types[0] == Ty::Text && rng.chance(1, 2) { 2 + rng.below(4) as u8 } else { 0 };
            m.push(BRule { cond: BCond::Atom(BAtom { field: 0, op, lit: a }), sets: vec![(0, b)], fails: false, copies: vec![], no_loop: false, retracts: vec![], appends: false, effective_in: None });
        }
        let v = rng.below(3) as u8;
        for _ in 0..1 + rng.usize(2) {
            let op = if types[0] == Ty::Text && rng.chance(1, 2) { 2 + rng.below(4) as u8 } else { 0 };
            m.push(BRule { cond: BCond::Atom(BAtom { field: 0, op, lit: rng.below(nvals as u64) as u8 }), sets: vec![(1, v)], fails: false, copies: vec![], no_loop: false, retracts: vec![], appends: false, effective_in: None });
        }
        m.extend(rules.iter().take(rng.usize(3)).cloned());
        rng.shuffle(&mut m);
        rules = m;
        init[0] = 0;
        init[1] = if types[1] == Ty::Bool { (v % 2) ^ 1 } else { (v + 1) % 3 };
        machine_goal = Some(BAtom { field: 1, op: 0, lit: v });
    }
    let ngoals = 1 + rng.usize(3);
    let goals = (0..ngoals)
        .map(|_| {
            let f = rng.below(nassign as u64 + 1).min(NF as u64 - 1) as u8;
            if horn && rng.chance(3, 4) {
                BAtom { field: f, op: 0, lit: assigned_val[f as usize] }
            } else {
                // goals on text fields stay `==` / `!=`
                BAtom { field: f, op: if types[f as usize] == Ty::Text { rng.below(2) as u8 } else { rng.below(6) as u8 }, lit: rng.below(3) as u8 }
            }
        })
        .collect::<Vec<BAtom>>();
    let goals: Vec<BAtom> = match machine_goal {
        Some(g) => std::iter::once(g).chain(std::iter::once(BAtom { field: 0, op: 0, lit: rng.below(3) as u8 })).chain(goals).take(3).collect(),
        None => goals,
    };
    let attach_rete = rng.chance(1, 5);
    // what a caller's write is likely to be about: a premise some rule is waiting for (`field == lit` in a
    // condition), or a fact that only an action reads (the source of a copy, set to what a goal asks of the target)
    let mut premises: Vec<(u8, u8)> = Vec::new();
    for r in &rules {
        let mut ats = Vec::new();
        atoms_of(&r.cond, &mut ats);
        for a in ats {
            if a.op % nops(types[a.field as usize % NF]) == 0 {
                premises.push((a.field % NF as u8, a.lit));
            }
        }
    }
    let mut sources: Vec<(u8, u8)> = Vec::new();
    for r in &rules {
        for (t, src) in &r.copies {
            for g in goals.iter().filter(|g| g.field % NF as u8 == *t % NF as u8) {
                sources.push((*src, g.lit));
            }
            sources.push((*src, rng.below(3) as u8));
        }
    }
    let gen_set = |rng: &mut Rng, focused: bool| -> BOp {
        match rng.weighted(&[if focused { 10 } else { 40 }, if premises.is_empty() { 0 } else { 40 }, if sources.is_empty() { 0 } else if focused { 50 } else { 20 }]) {
            1 => {
                let (f, l) = *rng.pick(&premises);
                BOp::SetFact(f, l)
            }
            2 => {
                let (f, l) = *rng.pick(&sources);
                BOp::SetFact(f, l)
            }
            _ => BOp::SetFact(rng.below(NF as u64) as u8, rng.below(3) as u8),
        }
    };
    let nops = 1 + rng.usize(6);
    let mut ops = Vec::new();
    for _ in 0..nops {
        let w = rng.weighted(&[55, 20, 5, 5, if attach_rete { 8 } else { 0 }, if attach_rete { 6 } else { 0 }, if c11_ops { 8 } else { 0 }, 6, 5, if c11_ops { 8 } else { 0 }, 6, if c11_ops || with_negation { 4 } else { 0 }]);
        ops.push(match w {
            0 => {
                if with_negation && rng.chance(1, 4) {
                    BOp::QueryNot(rng.below(3) as u8)
                } else {
                    BOp::Query(rng.below(3) as u8)
                }
            }
            1 => gen_set(rng, false),
            2 => BOp::RemoveAux,
            3 => BOp::AssertAux(rng.below(3) as u8),
            4 => BOp::EngineInsert(rng.below(3) as u8),
            5 => BOp::EngineRetract(rng.below(4) as u8),
            6 => BOp::Retype(rng.below(NF as u64) as u8),
            8 => BOp::SetFactNull(rng.below(NF as u64) as u8),
            9 => BOp::QueryAggregate(rng.below(9) as u8, rng.chance(1, 3)),
            10 => BOp::ToggleRule(rng.below(16) as u8),
            11 => BOp::CallerFrame(*rng.pick(&[0u8, 0, 1, 1, 2])),
            _ => BOp::SetConfig { strategy: *rng.pick(&[0u8, 0, 1, 2]), max_solutions: *rng.pick(&[1usize, 1, 3]), memo: rng.chance(2, 3), max_depth: if rng.chance(1, 3) { Some(*rng.pick(&[0usize, 1, 2, 3, 4])) } else { None } },
        });
    }
    // every other history ends with the pattern 'ask, the caller writes a fact, ask the same again'
    if rng.chance(1, 2) {
        let g = rng.below(3) as u8;
        ops.push(BOp::Query(g));
        ops.push(gen_set(rng, true));
        ops.push(BOp::Query(g));
    }
    // C11, one history in six ends with the caller's "what if": ask, open a frame, write, ask, roll back, ask again
    if (c11_ops || with_negation) && rng.chance(1, 6) {
        let g = rng.below(3) as u8;
        ops.push(BOp::Query(g));
        ops.push(BOp::CallerFrame(0));
        ops.push(gen_set(rng, true));
        ops.push(BOp::Query(g));
        ops.push(BOp::CallerFrame(1));
        ops.push(BOp::Query(g));
    }
    ops.push(BOp::Query(rng.below(3) as u8));
    // C11, one program in eight (without an attached RETE engine) has a dated rule — effective one second into the
    // run — and a history that ends: ask, the clock moves on two seconds, ask the same again
    if c11_ops && !attach_rete && rng.chance(1, 8) {
        let k = rng.usize(rules.len());
        rules[k].effective_in = Some(1);
        let g = rng.below(3) as u8;
        ops.push(BOp::Query(g));
        ops.push(BOp::AdvanceClock(2));
        ops.push(BOp::Query(g));
    }
    // C11, one history in 400 is LONG: the caller re-asserts an unrelated fact with a new value 70-90 times —
    // every one a fact state the engine has not seen — asking the same query each time, then writes a premise
    // and asks again (a memo table, an id space or a cache that only behaves differently after dozens of states)
    if c11_ops && rng.chance(1, 400) {
        let g = rng.below(3) as u8;
        let mut long: Vec<BOp> = Vec::new();
        for i in 0..70 + rng.below(21) {
            long.push(BOp::AssertAux(i as u8));
            long.push(BOp::Query(g));
        }
        long.push(gen_set(rng, true));
        long.push(BOp::Query(g));
        long.push(gen_set(rng, true));
        long.push(BOp::Query(g));
        ops = long;
    }
    BwdTrace::Search {
        hash_seed,
        alt_hash_seeds: vec![rng.next_u64(), rng.next_u64(), rng.next_u64()],
        types,
        init,
        rules,
        goals,
        max_depth: if many_rules { *rng.pick(&[0usize, 1, 1, 2, 2, 3]) } else if machine { *rng.pick(&[1usize, 2, 2, 3, 3, 4]) } else { *rng.pick(&[0usize, 1, 1, 2, 2, 3, 3, 4, 5, 6]) },
        strategy: *rng.pick(&[0u8, 0, 0, 1, 2]),
        max_solutions: *rng.pick(&[1usize, 1, 1, 3]),
        memo: rng.chance(1, 2),
        attach_rete,
        ops,
        objects: rng.chance(1, 3),
        empty: rng.chance(1, 4),
    }
}

impl World for BwdWorld {
    type Trace = BwdTrace;
    fn name(&self) -> &'static str {
        "bwd"
    }
    fn info(&self, prop: &str) -> WorldInfo {
        let mut probes = vec!["fault.rule_action_errors_midway", "probe.reconfigured_with_the_same_max_depth", "probe.reconfigured_with_another_max_depth", "probe.program_of_more_than_8_rules", "probe.rule_disabled_mid_history", "probe.rule_enabled_again_mid_history", "probe.alt_hash_seed_query", "probe.returned_facts_differ_between_hash_seeds", "probe.history_of_two_or_more_queries", "probe.caller_changed_a_fact", "probe.same_query_asked_again", "probe.retraction_in_attached_engine"];
        match prop {
            "C09" => probes.extend(["probe.provable_query", "probe.complete_clause_applicable", "probe.derivation_of_height_2_or_more", "probe.derivation_deeper_than_max_depth", "probe.chain_derivation_of_height_2_or_more"]),
            "C10" => probes.extend(["probe.unprovable_query", "probe.failed_query_with_derivable_intermediate_facts", "probe.nested_frame_committed", "probe.frame_rolled_back", "probe.flat_dotted_key_written"]),
            "C11" => probes.extend(["probe.negated_query", "probe.fact_retyped_same_rendering"]),
            _ => {}
        }
        WorldInfo {
            level: "exploration",
            rule: "<=8 Horn-style rules over 5 fields (boolean / string / integer / mixed domains; conditions And/Or of 1-3 atoms, actions \
                   assign 1-2 literals; half of the programs Horn-monotone so that minimal derivation heights are well defined; shapes \
                   that arise: chains, shared sub-goals, dead ends, wrong-value conclusions, competing conclusions, cycles), 1-3 atomic \
                   goals, max_depth 0-6, DFS/BFS/iterative, max_solutions 1/3, memoisation on/off, optionally an attached RETE engine; \
                   histories of 1-7 steps (query, caller changes/removes/asserts a fact, insert/retract in the attached engine). Every \
                   query runs on the long-lived engine, on a fresh engine in the same process and on fresh engines under 3 further \
                   hash seeds. C10 additionally: 1 run in 3 drives begin/commit/rollback/set/set_nested/remove (<=10 ops, 3 keys plus flat dotted keys `k.x` that merely look like paths below them) on a \
                   Facts store against a stack-of-snapshots model. Non-trivial iff >=1 query over >=2 rules (frames: nesting >=2); \
                   distinct = fingerprint of the trace"
                .into(),
            real: vec!["BackwardEngine", "DepthFirstSearch / BreadthFirstSearch / IterativeDeepeningSearch", "RuleExecutor", "ConditionEvaluator", "ConclusionIndex", "GoalManager (memo cache)", "Facts (undo frames)", "IncrementalEngine + TMS as the attached engine (1 run in 5)"],
            stub: vec!["hash seed (getrandom seam; one fresh OS thread per engine under test)", "the caller", "forward-closure and derivation-height reference (harness, independent of every engine in /repo)"],
            assumptions: vec![
                "facts are flat keys `F.f0`..`F.f4`, every field a condition reads is present, literals have the field's own type (typed core)".into(),
                "sound.closure uses an over-approximating closure (per field the set of values any rule sequence could give it); complete.dfs is demanded only for Horn-monotone programs, where the minimal derivation height is well defined, and only for DFS".into(),
                "C11 compares the provable verdict (the property's observable), not the facts handed back".into(),
                "the frame clauses driven by direct client calls involve no seam: that part is a seeded history against a model (DESIGN.md §5)".into(),
            ],
            hang_is_a_verdict: false,
            required_probes: probes,
            quick_runs: if prop == "C11" { 40_000 } else { 25_000 },
            thorough_runs: 600_000,
        }
    }

    fn generate(&self, prop: &str, _tier: Tier, rng: &mut Rng) -> BwdTrace {
        let hash_seed = rng.next_u64();
        if prop == "C10" && rng.chance(1, 3) {
            // 2-10 operations; one history in four is longer (11-20) and nests deeper (more Begins)
            let deep = rng.chance(1, 4);
            let n = if deep { 11 + rng.usize(10) } else { 2 + rng.usize(9) };
            let ops = (0..n)
                .map(|_| match rng.weighted(&[if deep { 32 } else { 22 }, 12, 16, 18, 12, 10, 10, 4, 10, 8, 5, 6]) {
                    0 => FrameOp::Begin,
                    1 => FrameOp::Commit,
                    2 => FrameOp::Rollback,
                    3 => FrameOp::Set(rng.below(3) as u8, rng.range(1, 9)),
                    4 => FrameOp::SetNested(rng.below(3) as u8, rng.range(1, 9)),
                    5 => FrameOp::Remove(rng.below(3) as u8),
                    6 => FrameOp::SetDotted(rng.below(3) as u8, rng.range(1, 9)),
                    7 => FrameOp::RemoveDotted(rng.below(3) as u8),
                    8 => FrameOp::SetKind(rng.below(3) as u8, rng.below(8) as u8),
                    9 => FrameOp::SetNestedPlain(rng.below(3) as u8, rng.range(1, 9)),
                    10 => FrameOp::SetNestedDeep(rng.below(3) as u8, rng.range(1, 9)),
                    _ => FrameOp::RemoveMember(if rng.chance(1, 2) { 2 } else { rng.below(3) as u8 }),
                })
                .collect();
            return BwdTrace::Frames { hash_seed, ops };
        }
        gen_search(rng, hash_seed, prop == "C11", prop != "C09")
    }

    fn hash_seed(&self, t: &BwdTrace) -> u64 {
        match t {
            BwdTrace::Search { hash_seed, .. } | BwdTrace::Frames { hash_seed, .. } => *hash_seed,
        }
    }

    fn run(&self, prop: &str, t: &BwdTrace, obs: &mut Obs) -> Result<(), Violation> {
        obs.fp_str(&serde_json::to_string(t).unwrap_or_default());
        obs.faulty = true;
        match t {
            BwdTrace::Frames { ops, .. } => {
                if prop == "C10" {
                    run_frames(ops, obs)
                } else {
                    Ok(())
                }
            }
            BwdTrace::Search { alt_hash_seeds, types, init, rules, goals, max_depth, strategy, max_solutions, memo, attach_rete, ops, objects, empty, .. } => {
                if types.len() != NF || init.len() != NF || rules.is_empty() {
                    return Ok(());
                }
                OBJECTS.with(|o| o.set(*objects));
                EMPTY.with(|e| e.set(*empty));
                if *empty && types.contains(&Ty::Str) {
                    obs.count("probe.empty_string_as_a_value_and_literal");
                }
                if *objects {
                    obs.count("probe.fields_on_three_objects");
                }
                // goals on text fields are `==` / `!=` whatever the trace says (a hand-edited or shrunk trace)
                let goals: Vec<BAtom> = goals.iter().map(|g| if types[g.field as usize % NF] == Ty::Text { BAtom { op: g.op % 2, ..g.clone() } } else { g.clone() }).collect();
                let goals = &goals;
                if types.contains(&Ty::Text) {
                    obs.count("probe.program_over_text_fields_with_string_operators");
                }
                if ops.len() > 100 {
                    obs.count("probe.history_of_more_than_64_fact_states_on_one_engine");
                }
                run_search(prop, types, init, rules, goals, *max_depth, *strategy, (*max_solutions).max(1), *memo, *attach_rete, ops, alt_hash_seeds, obs)
            }
        }
    }

    fn shrink(&self, t: &BwdTrace) -> Vec<BwdTrace> {
        let mut out = Vec::new();
        match t {
            BwdTrace::Frames { hash_seed, ops } => {
                for v in drop_chunks(ops) {
                    out.push(BwdTrace::Frames { hash_seed: *hash_seed, ops: v });
                }
                if *hash_seed != 1 {
                    out.push(BwdTrace::Frames { hash_seed: 1, ops: ops.clone() });
                }
            }
            BwdTrace::Search { hash_seed, alt_hash_seeds, types, init, rules, goals, max_depth, strategy, max_solutions, memo, attach_rete, ops, objects, empty } => {
                let mk = |alt: &Vec<u64>, rules: &Vec<BRule>, goals: &Vec<BAtom>, ops: &Vec<BOp>, max_depth: usize, max_solutions: usize, memo: bool, attach: bool, init: &Vec<u8>, hs: u64| BwdTrace::Search {
                    hash_seed: hs,
                    alt_hash_seeds: alt.clone(),
                    types: types.clone(),
                    init: init.clone(),
                    rules: rules.clone(),
                    goals: goals.clone(),
                    max_depth,
                    strategy: *strategy,
                    max_solutions,
                    memo,
                    attach_rete: attach,
                    ops: ops.clone(),
                    objects: *objects,
                    empty: *empty,
                };
                for v in drop_chunks(ops) {
                    out.push(mk(alt_hash_seeds, rules, goals, &v, *max_depth, *max_solutions, *memo, *attach_rete, init, *hash_seed));
                }
                for v in drop_chunks(rules) {
                    if !v.is_empty() {
                        out.push(mk(alt_hash_seeds, &v, goals, ops, *max_depth, *max_solutions, *memo, *attach_rete, init, *hash_seed));
                    }
                }
                if alt_hash_seeds.len() > 1 {
                    for s in alt_hash_seeds {
                        out.push(mk(&vec![*s], rules, goals, ops, *max_depth, *max_solutions, *memo, *attach_rete, init, *hash_seed));
                    }
                }
                if !alt_hash_seeds.is_empty() {
                    out.push(mk(&vec![], rules, goals, ops, *max_depth, *max_solutions, *memo, *attach_rete, init, *hash_seed));
                }
                if goals.len() > 1 {
                    for g in goals {
                        out.push(mk(alt_hash_seeds, rules, &vec![g.clone()], ops, *max_depth, *max_solutions, *memo, *attach_rete, init, *hash_seed));
                    }
                }
                if *attach_rete {
                    out.push(mk(alt_hash_seeds, rules, goals, ops, *max_depth, *max_solutions, *memo, false, init, *hash_seed));
                }
                if *memo {
                    out.push(mk(alt_hash_seeds, rules, goals, ops, *max_depth, *max_solutions, false, *attach_rete, init, *hash_seed));
                }
                if *max_solutions > 1 {
                    out.push(mk(alt_hash_seeds, rules, goals, ops, *max_depth, 1, *memo, *attach_rete, init, *hash_seed));
                }
                if *max_depth > 0 {
                    out.push(mk(alt_hash_seeds, rules, goals, ops, *max_depth - 1, *max_solutions, *memo, *attach_rete, init, *hash_seed));
                }
                for i in 0..rules.len() {
                    let r = &rules[i];
                    let mut alts: Vec<BRule> = Vec::new();
                    match &r.cond {
                        BCond::And(a, b) | BCond::Or(a, b) => {
                            alts.push(BRule { cond: (**a).clone(), sets: r.sets.clone(), fails: r.fails, copies: r.copies.clone(), no_loop: r.no_loop, retracts: r.retracts.clone(), appends: r.appends, effective_in: None });
                            alts.push(BRule { cond: (**b).clone(), sets: r.sets.clone(), fails: r.fails, copies: r.copies.clone(), no_loop: r.no_loop, retracts: r.retracts.clone(), appends: r.appends, effective_in: None });
                        }
                        _ => {}
                    }
                    if r.fails {
                        alts.push(BRule { cond: r.cond.clone(), sets: r.sets.clone(), fails: false, copies: r.copies.clone(), no_loop: r.no_loop, retracts: r.retracts.clone(), appends: r.appends, effective_in: None });
                        if r.appends {
                            alts.push(BRule { cond: r.cond.clone(), sets: r.sets.clone(), fails: r.fails, copies: r.copies.clone(), no_loop: r.no_loop, retracts: r.retracts.clone(), appends: false, effective_in: None });
                        }
                        if !r.retracts.is_empty() {
                            alts.push(BRule { cond: r.cond.clone(), sets: r.sets.clone(), fails: r.fails, copies: r.copies.clone(), no_loop: r.no_loop, retracts: vec![], appends: r.appends, effective_in: None });
                        }
                        if !r.copies.is_empty() {
                            alts.push(BRule { cond: r.cond.clone(), sets: r.sets.clone(), fails: r.fails, copies: vec![], no_loop: r.no_loop, retracts: r.retracts.clone(), appends: r.appends, effective_in: None });
                        }
                    }
                    if r.sets.len() > 1 {
                        for k in 0..r.sets.len() {
                            let mut s = r.sets.clone();
                            s.remove(k);
                            alts.push(BRule { cond: r.cond.clone(), sets: s, fails: r.fails, copies: r.copies.clone(), no_loop: r.no_loop, retracts: r.retracts.clone(), appends: r.appends, effective_in: None });
                        }
                    }
                    for b in alts {
                        let mut c = rules.clone();
                        c[i] = b;
                        out.push(mk(alt_hash_seeds, &c, goals, ops, *max_depth, *max_solutions, *memo, *attach_rete, init, *hash_seed));
                    }
                }
                for i in 0..NF {
                    if init[i] != 0 {
                        let mut c = init.clone();
                        c[i] = 0;
                        out.push(mk(alt_hash_seeds, rules, goals, ops, *max_depth, *max_solutions, *memo, *attach_rete, &c, *hash_seed));
                    }
                }
                if *hash_seed != 1 {
                    out.push(mk(alt_hash_seeds, rules, goals, ops, *max_depth, *max_solutions, *memo, *attach_rete, init, 1));
                }
            }
        }
        out
    }
}
