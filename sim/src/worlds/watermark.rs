//! World `watermark` (C13): `WatermarkedStream` (real `WatermarkGenerator` + `LateDataHandler`)
//! fed through a simulated network that delays, reorders and duplicates the events of 1-2
//! sources; the `Periodic` strategy reads the simulated processing-time clock.

use crate::core::rng::Rng;
use crate::core::{clock, Obs, Tier, Violation, World, WorldInfo};
use rust_rule_engine::streaming::event::StreamEvent;
use rust_rule_engine::streaming::watermark::{LateDataStrategy, WatermarkStrategy, WatermarkedStream};
use rust_rule_engine::types::Value;
use serde::{Deserialize, Serialize};
use std::collections::{BTreeSet, HashMap};
use std::time::Duration;

const PROP: &str = "C13";
const SITE: &str = "WatermarkedStream::add_event";

#[derive(Clone, Copy, Debug, Serialize, Deserialize, PartialEq)]
pub enum Wm {
    Bounded(u64),
    Monotonic,
    Periodic(u64),
}

#[derive(Clone, Copy, Debug, Serialize, Deserialize, PartialEq)]
pub enum Late {
    Drop,
    Allowed(u64),
    Side,
    Recompute,
}

#[derive(Clone, Debug, Serialize, Deserialize, PartialEq)]
pub struct Arrival {
    pub ts: u64,
    /// which of the sources emitted it (the event carries the source's name and a type of its own)
    #[serde(default)]
    pub src: u8,
    /// processing-time clock movement before this arrival, ms (negative: the clock steps back)
    pub clock_adv: i64,
}

#[derive(Clone, Debug, Serialize, Deserialize)]
pub struct WmTrace {
    pub hash_seed: u64,
    pub wm: Wm,
    pub late: Late,
    pub arrivals: Vec<Arrival>,
    /// ms the clock ticks after each read (cyclic); empty = only moves between arrivals
    pub tick_pattern: Vec<u8>,
}

pub struct WatermarkWorld;

/// Bounds are milliseconds in the trace; the three largest values stand for the ways of writing "no bound":
/// `Duration::MAX`, `Duration::from_secs(1 << 61)` (more than 2^64 ms) and `Duration::from_millis(u64::MAX)`.
/// The model needs no special case: every one of them is larger than any stamp.
fn dur(ms: u64) -> Duration {
    match ms {
        u64::MAX => Duration::MAX,
        x if x == u64::MAX - 1 => Duration::from_secs(1 << 61),
        ms => Duration::from_millis(ms),
    }
}

const CLOCK_BASE_MS: u64 = 1_700_000_000_000;

fn mk_event(i: usize, ts: u64, src: u8) -> StreamEvent {
    let mut data = HashMap::new();
    data.insert("n".to_string(), Value::Integer(i as i64));
    let mut e = StreamEvent::with_timestamp(if src % 2 == 0 { "E" } else { "F" }, data, format!("src{src}"), ts);
    e.id = format!("e{i}");
    e
}

impl World for WatermarkWorld {
    type Trace = WmTrace;
    fn name(&self) -> &'static str {
        "watermark"
    }
    fn info(&self, _prop: &str) -> WorldInfo {
        WorldInfo {
            level: "exploration",
            rule: "<=12 arrivals with stamps 0..30 produced by 1-2 in-order sources and delivered through a simulated \
                   network (per-event delay => reordering, bursts of equal stamps, duplicates, reversed runs); delay \
                   0..10; every late-data strategy; BoundedOutOfOrder / MonotonicAscending / Periodic under a \
                   processing-time clock that advances, stalls, ticks on read and steps back. Non-trivial iff at least \
                   one event was late and the watermark advanced at least twice; distinct = fingerprint of (config, \
                   arrival order, clock script, final accounting)"
                .into(),
            real: vec!["WatermarkedStream", "WatermarkGenerator", "LateDataHandler", "Watermark"],
            stub: vec!["event sources", "SimNet (delay/reorder/duplicate)", "SimClock (processing time, Periodic only)", "hash seed"],
            assumptions: vec![
                "Periodic strategy: only monotonicity, 'never above the largest stamp seen', lateness and conservation are judged; when a periodic watermark is due is not part of the property".into(),
                "event ids are assigned by the harness".into(),
            ],
            hang_is_a_verdict: true,
            required_probes: vec![
                "probe.late_event",
                "probe.late_allowed",
                "probe.late_dropped",
                "probe.side_output",
                "probe.equal_to_watermark_not_late",
                "probe.watermark_clamped_at_zero",
                "fault.clock_step_back",
                "fault.clock_stall",
                "fault.reordered_arrival",
                "probe.delay_or_lateness_bound_of_a_second_or_more",
                "probe.delay_or_lateness_bound_that_means_unbounded",
                "probe.stream_of_more_than_1024_arrivals",
                "probe.events_of_two_sources",
                "probe.timestamps_beyond_2_to_the_31",
            ],
            quick_runs: 1_500_000,
            thorough_runs: 40_000_000,
        }
    }

    fn generate(&self, _prop: &str, _tier: Tier, rng: &mut Rng) -> WmTrace {
        let hash_seed = rng.next_u64();
        let wm = match rng.usize(5) {
            0 | 1 => Wm::Bounded(rng.below(11)),
            2 => Wm::Bounded(0),
            3 => Wm::Monotonic,
            _ => Wm::Periodic(*rng.pick(&[0u64, 1, 2, 5])),
        };
        let late = match rng.usize(4) {
            0 => Late::Drop,
            1 => Late::Allowed(rng.below(8)),
            2 => Late::Side,
            _ => Late::Recompute,
        };
        // sources emit in event-time order; SimNet delays each message
        let n = 1 + rng.usize(12);
        let ts_max = *rng.pick(&[5u64, 12, 30]);
        let nsrc = 1 + rng.usize(2);
        let mut msgs: Vec<(u64, u64, u64, u8)> = Vec::new(); // (arrival time, seq, ts, source)
        let mut seq = 0;
        let net_mode = rng.usize(4); // 0 in-order, 1 small jitter, 2 heavy jitter, 3 reversed
        for s in 0..nsrc {
            let room = n.saturating_sub(msgs.len());
            let cnt = if s + 1 == nsrc { room } else { rng.usize(n + 1).min(room) };
            let mut stamps: Vec<u64> = (0..cnt).map(|_| rng.below(ts_max + 1)).collect();
            stamps.sort();
            for ts in stamps {
                let delay = match net_mode {
                    0 => 0,
                    1 => rng.below(4),
                    2 => rng.below(ts_max + 5),
                    _ => 2 * (ts_max - ts),
                };
                msgs.push((ts + delay, seq, ts, s as u8));
                seq += 1;
                if rng.chance(1, 12) && msgs.len() < 12 {
                    // duplication: a second message with its own id
                    msgs.push((ts + delay + rng.below(3), seq, ts, s as u8));
                    seq += 1;
                }
            }
        }
        msgs.sort();
        msgs.truncate(12);
        let clock_mode = rng.usize(4); // 0 steady, 1 stalls, 2 jumps incl. backwards, 3 frozen
        let arrivals = msgs
            .iter()
            .map(|(_, _, ts, src)| Arrival {
                ts: *ts,
                src: *src,
                clock_adv: match clock_mode {
                    0 => rng.range(1, 3),
                    1 => *rng.pick(&[0i64, 0, 1, 2]),
                    2 => *rng.pick(&[-5i64, -1, 0, 1, 2, 5, 10]),
                    _ => 0,
                },
            })
            .collect();
        let tick_pattern = if rng.chance(1, 4) { vec![*rng.pick(&[0u8, 1]), *rng.pick(&[0u8, 1, 2])] } else { vec![] };
        // one run in 400: a long stream (1030-1300 arrivals, most of them late) — buffers and counters
        // that only matter after a thousand events
        let arrivals: Vec<Arrival> = if rng.chance(1, 400) {
            let n = 1030 + rng.usize(270);
            let mut v = vec![Arrival { ts: 40, src: 0, clock_adv: 1 }];
            for _ in 0..n {
                v.push(Arrival { ts: if rng.chance(1, 8) { 40 + rng.below(6) } else { rng.below(36) }, src: rng.below(2) as u8, clock_adv: 1 });
            }
            v
        } else if rng.chance(1, 150) {
            // one run in 150: a stream of 140-420 arrivals whose stamps keep rising (with a little jitter, so
            // that some arrive late) — the watermark advances hundreds of times on one stream, which the
            // streams above never do (their stamps stay below 46, so the watermark moves a few dozen times)
            let n = 140 + rng.usize(280);
            let step = 1 + rng.below(3);
            (0..n as u64).map(|i| Arrival { ts: (10 + i * step).saturating_sub(rng.below(5)), src: rng.below(2) as u8, clock_adv: 1 + rng.below(2) as i64 }).collect()
        } else {
            arrivals
        };
        // unit scale (swarm): the same history in ms, quarter seconds, seconds or hours — delays and
        // lateness bounds of a second and more take other paths through `Duration` than 0..10 ms do.
        // Periodic emission is tied to the processing clock and keeps its scale.
        let scale = if matches!(wm, Wm::Periodic(_)) { 1 } else { *rng.pick(&[1u64, 1, 1, 1, 7, 250, 1000, 3_600_000]) };
        // at the larger scales one run in three adds an odd number of milliseconds to the bounds, so that they
        // are not all multiples of 250 (a bound of 1140 ms converts differently from one of 1250 ms when it is
        // taken through floating-point seconds)
        let odd = |rng: &mut Rng| if scale >= 250 && rng.chance(1, 3) { rng.below(1000) } else { 0 };
        let wm = match wm {
            Wm::Bounded(d) => Wm::Bounded(d * scale + odd(rng)),
            w => w,
        };
        let late = match late {
            Late::Allowed(m) => Late::Allowed(m * scale + odd(rng)),
            l => l,
        };
        // one run in 40: "no bound at all", written as Duration::MAX, as more than 2^64 ms or as u64::MAX ms
        let (wm, late) = if rng.chance(1, 40) {
            let huge = |rng: &mut Rng| *rng.pick(&[u64::MAX, u64::MAX - 1, u64::MAX - 2]);
            (if let Wm::Bounded(_) = wm { Wm::Bounded(huge(rng)) } else { wm }, if let Late::Allowed(_) = late { Late::Allowed(huge(rng)) } else { late })
        } else {
            (wm, late)
        };
        let arrivals: Vec<Arrival> = arrivals;
        // epoch offset (swarm): real streams carry epoch milliseconds (~1.7e12), not 0..40 — arithmetic that
        // is fine near zero may truncate or wrap beyond 2^31, 2^32 or 2^53
        let offset = *rng.pick(&[0u64, 0, 0, 0, 1_700_000_000_000, 1_700_000_000_000, (1 << 31) - 20, (1u64 << 32) - 20, 1u64 << 53, (1u64 << 63) - 20, (1u64 << 63) + 1000]);
        let arrivals = arrivals.into_iter().map(|a| Arrival { ts: a.ts * scale + offset, ..a }).collect();
        WmTrace { hash_seed, wm, late, arrivals, tick_pattern }
    }

    fn hash_seed(&self, t: &WmTrace) -> u64 {
        t.hash_seed
    }

    fn run(&self, _prop: &str, t: &WmTrace, obs: &mut Obs) -> Result<(), Violation> {
        clock::install(CLOCK_BASE_MS);
        clock::set_tick_pattern(t.tick_pattern.clone());
        let strat = match t.wm {
            Wm::Bounded(d) => WatermarkStrategy::BoundedOutOfOrder { max_delay: dur(d) },
            Wm::Monotonic => WatermarkStrategy::MonotonicAscending,
            Wm::Periodic(i) => WatermarkStrategy::Periodic { interval: Duration::from_millis(i) },
        };
        let late = match t.late {
            Late::Drop => LateDataStrategy::Drop,
            Late::Allowed(m) => LateDataStrategy::AllowedLateness { max_lateness: dur(m) },
            Late::Side => LateDataStrategy::SideOutput,
            Late::Recompute => LateDataStrategy::RecomputeWindows,
        };
        let mut s = WatermarkedStream::new(strat, late);
        obs.faulty = t.arrivals.iter().any(|a| a.clock_adv <= 0) || !t.tick_pattern.is_empty();
        if t.arrivals.iter().any(|a| a.src != t.arrivals[0].src) {
            obs.count("probe.events_of_two_sources");
        }
        if t.arrivals.iter().any(|a| a.ts >= 1 << 63) {
            obs.count("probe.timestamps_beyond_2_to_the_63");
        }
        if t.arrivals.iter().any(|a| a.ts >= 1 << 31) {
            obs.count("probe.timestamps_beyond_2_to_the_31");
        }
        if t.arrivals.len() > 1024 {
            obs.count("probe.stream_of_more_than_1024_arrivals");
        }
        if matches!(t.wm, Wm::Bounded(d) if d >= u64::MAX - 2) || matches!(t.late, Late::Allowed(m) if m >= u64::MAX - 2) {
            obs.count("probe.delay_or_lateness_bound_that_means_unbounded");
        }
        if matches!(t.wm, Wm::Bounded(d) if d >= 1000) || matches!(t.late, Late::Allowed(m) if m >= 1000) {
            obs.count("probe.delay_or_lateness_bound_of_a_second_or_more");
        }

        // model
        let mut m_wm: u64 = 0;
        let mut m_max: u64 = 0;
        let mut m_events: Vec<usize> = Vec::new();
        let mut m_side: Vec<usize> = Vec::new();
        let mut m_dropped = 0usize;
        let mut m_allowed = 0usize;
        let mut m_late = 0usize;
        let mut advances = 0;
        let mut prev_hist_len = 0usize;
        let mut max_arrived: Option<u64> = None;

        for (i, a) in t.arrivals.iter().enumerate() {
            if a.clock_adv > 0 {
                clock::advance_ms(a.clock_adv as u64);
            } else if a.clock_adv < 0 {
                clock::step_back_ms((-a.clock_adv) as u64);
                obs.count("fault.clock_step_back");
            } else {
                obs.count("fault.clock_stall");
            }
            if let Some(mx) = max_arrived {
                if a.ts < mx {
                    obs.count("fault.reordered_arrival");
                }
            }
            max_arrived = Some(max_arrived.map_or(a.ts, |m| m.max(a.ts)));

            let wm_before = s.current_watermark().timestamp;
            if wm_before != m_wm {
                return Err(Violation::new(PROP, "harness.model-sync", SITE, "model-out-of-sync", format!("model watermark {m_wm} != observed {wm_before} before step {i}"), i));
            }
            let r = s.add_event(mk_event(i, a.ts, a.src));
            if let Err(e) = r {
                return Err(Violation::new(PROP, "conserve.once", SITE, "add-event-error", format!("add_event returned Err({e}) for an ordinary event"), i));
            }
            let wm_after = s.current_watermark().timestamp;

            // --- wm.monotone
            if wm_after < wm_before {
                return Err(Violation::new(PROP, "wm.monotone", SITE, "watermark-moved-back", format!("watermark went from {wm_before} to {wm_after} at arrival {i} (ts {})", a.ts), i));
            }
            let hist: Vec<u64> = s.watermark_history().iter().map(|w| w.timestamp).collect();
            if hist.windows(2).any(|w| w[1] <= w[0]) {
                return Err(Violation::new(PROP, "wm.monotone", SITE, "history-not-increasing", format!("watermark history {hist:?} is not strictly increasing"), i));
            }
            if hist.len() < prev_hist_len {
                return Err(Violation::new(PROP, "wm.monotone", SITE, "history-shrank", format!("watermark history shrank to {hist:?}"), i));
            }
            if wm_after > wm_before && hist.last() != Some(&wm_after) {
                return Err(Violation::new(PROP, "wm.monotone", SITE, "history-misses-advance", format!("watermark advanced to {wm_after} but history is {hist:?}"), i));
            }
            prev_hist_len = hist.len();

            // --- late.iff (decided on the watermark before the call)
            let is_late = a.ts < wm_before;
            if a.ts == wm_before && wm_before > 0 {
                obs.count("probe.equal_to_watermark_not_late");
            }
            if is_late {
                m_late += 1;
                obs.count("probe.late_event");
                let lateness = wm_before - a.ts;
                match t.late {
                    Late::Drop => m_dropped += 1,
                    Late::Allowed(mx) => {
                        if lateness <= mx {
                            m_allowed += 1;
                            m_events.push(i);
                            obs.count("probe.late_allowed");
                            if lateness == mx {
                                obs.count("probe.lateness_exactly_allowed");
                            }
                        } else {
                            m_dropped += 1;
                        }
                    }
                    Late::Side => {
                        m_side.push(i);
                        obs.count("probe.side_output");
                    }
                    Late::Recompute => {
                        m_allowed += 1;
                        m_events.push(i);
                    }
                }
                if matches!(t.late, Late::Drop | Late::Allowed(_)) && m_dropped > 0 {
                    obs.count("probe.late_dropped");
                }
            } else {
                m_events.push(i);
                m_max = m_max.max(a.ts);
            }
            let st = s.late_stats();
            if st.total_late != m_late {
                return Err(Violation::new(
                    PROP,
                    "late.iff",
                    SITE,
                    if is_late { "late-event-not-treated-as-late" } else { "on-time-event-treated-as-late" },
                    format!("arrival {i} ts {} against watermark {wm_before}: late should be {is_late}, total_late is {} (model {m_late})", a.ts, st.total_late),
                    i,
                ));
            }

            // --- wm.bounded / watermark value
            if !is_late {
                match t.wm {
                    Wm::Bounded(d) => {
                        let want = m_max.saturating_sub(d);
                        if m_max < d {
                            obs.count("probe.watermark_clamped_at_zero");
                        }
                        if wm_after != want {
                            return Err(Violation::new(
                                PROP,
                                "wm.bounded",
                                SITE,
                                if wm_after > want { "watermark-ahead-of-max-minus-delay" } else { "watermark-behind-max-minus-delay" },
                                format!("after on-time arrival {i} (ts {}), largest stamp seen {m_max}, delay {d}: watermark is {wm_after}, expected {want}", a.ts),
                                i,
                            ));
                        }
                    }
                    Wm::Monotonic => {
                        if wm_after != m_max {
                            return Err(Violation::new(PROP, "wm.bounded", SITE, "monotonic-watermark-not-max", format!("MonotonicAscending: watermark {wm_after} after on-time arrival, largest stamp seen {m_max}"), i));
                        }
                    }
                    Wm::Periodic(_) => {
                        if wm_after != wm_before && wm_after != m_max {
                            return Err(Violation::new(PROP, "wm.bounded", SITE, "periodic-watermark-not-a-seen-max", format!("Periodic: watermark moved to {wm_after}, largest stamp seen is {m_max}"), i));
                        }
                    }
                }
            } else if wm_after != wm_before {
                return Err(Violation::new(PROP, "wm.bounded", SITE, "late-event-moved-watermark", format!("late arrival {i} moved the watermark {wm_before} -> {wm_after}"), i));
            }
            if wm_after > wm_before {
                advances += 1;
                if advances == 129 {
                    obs.count("probe.watermark_advanced_more_than_128_times");
                }
            }
            m_wm = wm_after;

            // --- conserve.once
            let ev_ids: Vec<String> = s.events().iter().map(|e| e.id.clone()).collect();
            let side_ids: Vec<String> = s.side_output().iter().map(|e| e.id.clone()).collect();
            let want_ev: Vec<String> = m_events.iter().map(|k| format!("e{k}")).collect();
            let want_side: Vec<String> = m_side.iter().map(|k| format!("e{k}")).collect();
            if ev_ids != want_ev || side_ids != want_side {
                let all: Vec<&String> = ev_ids.iter().chain(side_ids.iter()).collect();
                let uniq: BTreeSet<&String> = all.iter().cloned().collect();
                let sig = if uniq.len() != all.len() {
                    "event-in-two-places"
                } else if all.len() + st.dropped < i + 1 {
                    "event-lost"
                } else {
                    "event-in-wrong-place"
                };
                return Err(Violation::new(
                    PROP,
                    "conserve.once",
                    SITE,
                    sig,
                    format!("after arrival {i} (ts {}, late {is_late}): events {ev_ids:?} side {side_ids:?}, expected events {want_ev:?} side {want_side:?}", a.ts),
                    i,
                ));
            }
            if st.dropped != m_dropped || st.allowed != m_allowed || st.side_output != m_side.len() {
                return Err(Violation::new(
                    PROP,
                    "conserve.once",
                    SITE,
                    "late-accounting-differs",
                    format!("stats {st:?}, expected dropped {m_dropped} allowed {m_allowed} side {}", m_side.len()),
                    i,
                ));
            }
            // --- stats.add-up
            if st.total_late != st.dropped + st.allowed + st.side_output || ev_ids.len() + st.dropped + side_ids.len() != i + 1 {
                return Err(Violation::new(PROP, "stats.add-up", SITE, "stats-do-not-add-up", format!("stats {st:?}, events {}, offered {}", ev_ids.len(), i + 1), i));
            }
        }
        obs.nontrivial = m_late >= 1 && advances >= 2;
        obs.fp_str(&format!("{:?}|{:?}|{:?}|{:?}", t.wm, t.late, t.arrivals, t.tick_pattern));
        obs.fp_str(&format!("{m_wm}|{m_events:?}|{m_side:?}|{m_dropped}"));
        clock::uninstall();
        Ok(())
    }

    fn shrink(&self, t: &WmTrace) -> Vec<WmTrace> {
        let mut out = Vec::new();
        for v in crate::core::drop_chunks(&t.arrivals) {
            out.push(WmTrace { arrivals: v, ..t.clone() });
        }
        if !t.tick_pattern.is_empty() {
            out.push(WmTrace { tick_pattern: vec![], ..t.clone() });
        }
        for i in 0..t.arrivals.len() {
            let a = &t.arrivals[i];
            if a.clock_adv != 1 {
                let mut c = t.clone();
                c.arrivals[i].clock_adv = 1;
                out.push(c);
            }
            if a.ts > 0 {
                let mut c = t.clone();
                c.arrivals[i].ts = a.ts / 2;
                out.push(c);
                // small steps only near zero; far from it, round to thousands instead of creeping down one by one
                let mut c = t.clone();
                c.arrivals[i].ts = if a.ts <= 64 { a.ts - 1 } else { a.ts / 1000 * 1000 };
                if c.arrivals[i].ts != a.ts {
                    out.push(c);
                }
            }
        }
        match t.wm {
            Wm::Bounded(d) if d > 0 => {
                for nd in [d / 2, d / 1000 * 1000, if d <= 64 { d - 1 } else { d }] {
                    if nd != d {
                        out.push(WmTrace { wm: Wm::Bounded(nd), ..t.clone() });
                    }
                }
            }
            Wm::Periodic(d) if d > 0 => out.push(WmTrace { wm: Wm::Periodic(d - 1), ..t.clone() }),
            _ => {}
        }
        if let Late::Allowed(m) = t.late {
            if m > 0 {
                for nm in [m / 2, m / 1000 * 1000, if m <= 64 { m - 1 } else { m }] {
                    if nm != m {
                        out.push(WmTrace { late: Late::Allowed(nm), ..t.clone() });
                    }
                }
            }
        }
        if t.hash_seed != 1 {
            out.push(WmTrace { hash_seed: 1, ..t.clone() });
        }
        // the whole history closer to zero
        if let Some(m) = t.arrivals.iter().map(|a| a.ts).min() {
            for off in [1u64 << 31, m / 2, m] { // inserted at the front one by one: the largest step ends up first
                if off > 0 && off <= m {
                    let mut c = t.clone();
                    for a in c.arrivals.iter_mut() {
                        a.ts -= off;
                    }
                    out.insert(0, c);
                }
            }
        }
        // the whole history in a smaller unit
        if !matches!(t.wm, Wm::Periodic(_)) {
            for k in [3_600_000u64, 1000, 250, 7, 2] {
                let d = if let Wm::Bounded(d) = t.wm { d } else { 0 };
                let m = if let Late::Allowed(m) = t.late { m } else { 0 };
                if d % k == 0 && m % k == 0 && t.arrivals.iter().all(|a| a.ts % k == 0) && (d > 0 || m > 0 || t.arrivals.iter().any(|a| a.ts > 0)) {
                    let mut c = t.clone();
                    if let Wm::Bounded(d) = &mut c.wm {
                        *d /= k;
                    }
                    if let Late::Allowed(m) = &mut c.late {
                        *m /= k;
                    }
                    for a in c.arrivals.iter_mut() {
                        a.ts /= k;
                    }
                    out.insert(0, c);
                }
            }
        }
        out
    }
}
