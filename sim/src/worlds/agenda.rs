//! World `agenda` (C07).
//! Workload A: `AdvancedAgenda` driven directly; activations are created under the simulated
//! monotonic clock (advancing, stalled for k creations, minimum step), so that ties on
//! `Instant` — which only a coarse or stalled clock produces — are reached deterministically.
//! Workload B: the three `fire_all` entry points under a step budget (bounded liveness).

use crate::core::rng::Rng;
use crate::core::{budget, clock, drop_chunks, panic_text, Obs, Tier, Violation, World, WorldInfo};
use rust_rule_engine::rete::agenda::{Activation, AdvancedAgenda, ConflictResolutionStrategy};
use rust_rule_engine::rete::AlphaNode;
use rust_rule_engine::rete::facts::{FactValue, TypedFacts};
use rust_rule_engine::rete::network::{ReteUlEngine, ReteUlNode, TypedReteUlEngine, TypedReteUlRule};
use rust_rule_engine::rete::propagation::IncrementalEngine;
use serde::{Deserialize, Serialize};
use std::collections::{BTreeMap, BTreeSet};
use std::sync::Arc;

const PROP: &str = "C07";

#[derive(Clone, Debug, Serialize, Deserialize, PartialEq)]
pub struct Act {
    pub rule: u8,
    pub salience: i32,
    pub agenda_group: u8,         // 0 = MAIN, 1 = g1, 2 = g2
    pub activation_group: u8,     // 0 = none, 1 = a1, 2 = a2
    pub no_loop: bool,
    pub lock_on_active: bool,
    pub auto_focus: bool,
    /// ns the monotonic clock moves before this creation (0 = stalled)
    pub clock_step_ns: u32,
}

#[derive(Clone, Debug, Serialize, Deserialize, PartialEq)]
pub enum AOp {
    Add(Act),
    /// create an activation now (it is stamped by the clock) but hold it back
    Create(Act),
    /// add the n-th held activation (modulo) to the agenda
    AddHeld(u8),
    /// `set_strategy(n-th conflict resolution strategy)`: the property states the order unconditionally, and on
    /// the pinned tree the strategies do not change it (the heap re-orders by salience, creation, id)
    SetStrategy(u8),
    /// get_next_activation; `mark`: call mark_rule_fired on what came back
    Next { mark: bool },
    SetFocus(u8),
    ResetFired,
    Clear,
    /// the client throws the agenda away and constructs a new one (the monotonic clock moves by this many ns
    /// first); activations created and held back earlier are older than the agenda they are then added to
    NewAgenda(u32),
}

#[derive(Clone, Copy, Debug, Serialize, Deserialize, PartialEq)]
pub enum Engine {
    Incremental,
    Typed,
    Plain,
}

#[derive(Clone, Debug, Serialize, Deserialize, PartialEq)]
pub struct BRule {
    pub salience: i32,
    pub no_loop: bool,
    /// condition: F.x <op> value  (0: always true `F.on == true`)
    pub cond: u8,
    pub cond_value: i64,
    /// action: 0 nothing, 1 x += 1, 2 x = value, 3 toggles y, 4 x -= 1
    pub action: u8,
    pub action_value: i64,
}

#[derive(Clone, Debug, Serialize, Deserialize)]
pub enum AgendaTrace {
    A { hash_seed: u64, ops: Vec<AOp> },
    B {
        hash_seed: u64,
        engine: Engine,
        rules: Vec<BRule>,
        x0: i64,
        facts: u8,
        second_call: bool,
        /// IncrementalEngine, what the client does between the two calls: 0 reset + insert (a new epoch),
        /// 1 update the first fact (same contents), 2 insert another fact, 3 retract the first fact and insert
        /// it again — 1-3 WITHOUT reset, so the no-loop record must carry over
        #[serde(default)]
        between: u8,
        /// 1: the engine object is built with `Default::default()` instead of `new()`
        #[serde(default)]
        ctor: u8,
    },
}

pub struct AgendaWorld;

/// activation-group names: the second group has a BLANK name — a legal name like any other
fn agname(g: u8) -> String {
    if g % 2 == 0 {
        " ".to_string()
    } else {
        format!("a{g}")
    }
}

fn group_name(g: u8) -> String {
    match g {
        0 => "MAIN".to_string(),
        n => format!("g{n}"),
    }
}

#[derive(Clone, Debug)]
struct Pending {
    /// creation sequence number
    seq: u64,
    /// simulated monotonic instant the activation was stamped with
    created_ns: u64,
    /// order in which it was handed to add_activation
    add_seq: u64,
    act: Act,
    /// added while its activation group had already fired: an implementation may drop it at once
    maybe_absent: bool,
}

fn viol(clause: &str, site: &str, sig: &str, msg: String, step: usize) -> Violation {
    Violation::new(PROP, clause, site, sig, msg, step)
}

fn run_a(ops: &[AOp], obs: &mut Obs) -> Result<(), Violation> {
    let site = "AdvancedAgenda::get_next_activation";
    clock::install(1_700_000_000_000);
    let mut ag = AdvancedAgenda::new();
    let mut pending: BTreeMap<String, Vec<Pending>> = BTreeMap::new();
    let mut seq = 0u64;
    let mut add_seq = 0u64;
    let mut held: Vec<(Activation, Act, u64, u64)> = Vec::new();
    let mut fired_rules: BTreeSet<String> = BTreeSet::new();
    let mut fired_groups: BTreeSet<String> = BTreeSet::new();
    let mut locked: BTreeSet<String> = BTreeSet::new();
    let mut focus = "MAIN".to_string();
    let mut stack: Vec<String> = Vec::new();
    let mut returned = 0;
    let mut stalled_ties = 0;
    for (step, op) in ops.iter().enumerate() {
        let mut to_add: Option<(Activation, Act, u64, u64)> = None;
        match op {
            AOp::Add(a) | AOp::Create(a) => {
                if a.clock_step_ns == 0 {
                    obs.count("fault.clock_stalled_at_creation");
                } else {
                    clock::advance_mono_ns(a.clock_step_ns as u64);
                    if a.clock_step_ns == 1 {
                        obs.count("fault.clock_minimum_step");
                    }
                }
                let g = group_name(a.agenda_group);
                let mono_ns = clock::mono_ns(); // the instant the activation is about to be stamped with
                let mut act = Activation::new(format!("R{}", a.rule), a.salience)
                    .with_agenda_group(g.clone())
                    .with_no_loop(a.no_loop)
                    .with_lock_on_active(a.lock_on_active)
                    .with_auto_focus(a.auto_focus)
                    // the default (salience) strategy ignores this field: it serves as a tag that
                    // tells identical-looking activations apart when they come back
                    .with_condition_count(seq as usize + 1);
                if a.activation_group > 0 {
                    // (the second activation group has a BLANK name — a legal name like any other)
                    act = act.with_activation_group(agname(a.activation_group));
                }
                let my_seq = seq;
                seq += 1;
                if matches!(op, AOp::Create(_)) {
                    held.push((act, a.clone(), my_seq, mono_ns));
                    obs.count("probe.activation_created_and_held_back");
                    continue;
                }
                to_add = Some((act, a.clone(), my_seq, mono_ns));
            }
            AOp::AddHeld(i) => {
                if held.is_empty() {
                    continue;
                }
                let h = held.remove(*i as usize % held.len());
                if held.iter().any(|x| x.2 < h.2) || pending.values().flatten().any(|p| p.seq > h.2) {
                    obs.count("probe.added_in_another_order_than_created");
                }
                to_add = Some(h);
            }
            AOp::SetFocus(g) => {
                let g = group_name(*g);
                ag.set_focus(g.clone());
                if g != focus {
                    stack.push(focus.clone());
                    focus = g;
                }
            }
            AOp::ResetFired => {
                ag.reset_fired_flags();
                fired_rules.clear();
                fired_groups.clear();
                locked.clear();
                obs.count("probe.reset_fired_flags");
            }
            AOp::SetStrategy(n) => {
                use ConflictResolutionStrategy as S;
                let all = [S::Salience, S::LEX, S::MEA, S::Depth, S::Breadth, S::Simplicity, S::Complexity, S::Random];
                ag.set_strategy(all[*n as usize % all.len()]);
                obs.count("probe.conflict_resolution_strategy_set");
            }
            AOp::NewAgenda(ns) => {
                clock::advance_mono_ns(*ns as u64);
                ag = AdvancedAgenda::new();
                pending.clear();
                fired_rules.clear();
                fired_groups.clear();
                locked.clear();
                focus = "MAIN".to_string();
                stack.clear();
                if !held.is_empty() {
                    obs.count("probe.agenda_constructed_after_activations_were_created");
                }
            }
            AOp::Clear => {
                ag.clear();
                pending.clear();
                fired_rules.clear();
                fired_groups.clear();
                locked.clear();
                focus = "MAIN".to_string();
                stack.clear();
            }
            AOp::Next { mark } => {
                if ag.get_focus() != focus {
                    // focus mechanics are not C07's business; stop judging this run
                    obs.count("probe.focus_model_mismatch");
                    break;
                }
                let got = match budget::with_budget(10_000, || ag.get_next_activation()) {
                    Ok(g) => g,
                    Err(p) => return Err(viol("returns.no-panic", site, "get-next-panicked", format!("get_next_activation panicked: {}", panic_text(&p)), step)),
                };
                let eligible = |p: &Pending, fired_rules: &BTreeSet<String>, fired_groups: &BTreeSet<String>| -> bool {
                    !(p.act.no_loop && fired_rules.contains(&format!("R{}", p.act.rule)))
                        && !(p.act.activation_group > 0 && fired_groups.contains(&agname(p.act.activation_group)))
                };
                // certainly eligible: also not touched by lock-on-active (which the property does not mention)
                let certainly = |p: &Pending, fr: &BTreeSet<String>, fg: &BTreeSet<String>, locked: &BTreeSet<String>| -> bool {
                    eligible(p, fr, fg) && !p.maybe_absent && !(p.act.lock_on_active && locked.contains(&group_name(p.act.agenda_group)))
                };
                obs.fp_str(&format!("{:?}", got.as_ref().map(|a| (a.rule_name.clone(), a.salience, a.condition_count))));
                match got {
                    Some(a) => {
                        returned += 1;
                        let g = a.agenda_group.clone();
                        // groups exhausted on the way: the focus and the stack entries above g
                        let mut visited = vec![focus.clone()];
                        while focus != g {
                            match stack.pop() {
                                Some(f) => {
                                    focus = f;
                                    visited.push(focus.clone());
                                }
                                None => {
                                    return Err(viol("ord.salience", site, "activation-from-unfocused-group", format!("returned {} of group {g}, which is neither the focus nor on the focus stack", a.rule_name), step));
                                }
                            }
                        }
                        for v in &visited[..visited.len() - 1] {
                            // an exhausted group must not have held anything certainly eligible
                            if let Some(p) = pending.get(v).and_then(|l| l.iter().find(|p| certainly(p, &fired_rules, &fired_groups, &locked))) {
                                return Err(viol(
                                    "ord.salience",
                                    site,
                                    "focused-group-abandoned-with-eligible-activation",
                                    format!("focus left group {v} although activation #{} (R{}, salience {}) was pending and eligible", p.seq, p.act.rule, p.act.salience),
                                    step,
                                ));
                            }
                            pending.remove(v);
                            obs.count("probe.focus_popped_after_exhaustion");
                        }
                        let list = pending.entry(g.clone()).or_default();
                        // identify which pending activation came back by its tag
                        let pos = list.iter().position(|p| p.seq as usize + 1 == a.condition_count && format!("R{}", p.act.rule) == a.rule_name && p.act.salience == a.salience);
                        let pos = match pos {
                            Some(p) => p,
                            None => {
                                return Err(viol("ord.salience", site, "returned-activation-not-pending", format!("returned {} (salience {}) which is not pending in group {g}", a.rule_name, a.salience), step));
                            }
                        };
                        let me = list[pos].clone();
                        // noloop.once / actgroup.one
                        if me.act.no_loop && fired_rules.contains(&a.rule_name) {
                            return Err(viol("noloop.once", site, "no-loop-rule-returned-again", format!("{} is no-loop and was already marked fired since the last reset, yet it was returned again", a.rule_name), step));
                        }
                        // (the group the CLIENT gave the activation — what the agenda made of that field is its business)
                        if me.act.activation_group > 0 {
                            let gr = agname(me.act.activation_group);
                            if fired_groups.contains(&gr) {
                                return Err(viol("actgroup.one", site, "second-rule-of-activation-group-returned", format!("{} belongs to activation group {gr:?}, of which a rule was already marked fired", a.rule_name), step));
                            }
                        }
                        // ordering against everything certainly eligible that is still pending
                        for p in list.iter() {
                            if p.seq == me.seq || !certainly(p, &fired_rules, &fired_groups, &locked) {
                                continue;
                            }
                            if p.act.salience > me.act.salience {
                                return Err(viol(
                                    "ord.salience",
                                    site,
                                    "lower-salience-before-higher",
                                    format!("returned #{} ({}, salience {}) while #{} (R{}, salience {}) was pending and eligible in group {g}", me.seq, a.rule_name, me.act.salience, p.seq, p.act.rule, p.act.salience),
                                    step,
                                ));
                            }
                            // earlier-created first among equals: by the instant the activation was stamped
                            // with; when the instants tie, creation order — unless it was handed to the agenda
                            // in another order than it was created, which the property does not settle
                            let earlier = p.created_ns < me.created_ns || (p.created_ns == me.created_ns && p.seq < me.seq && p.add_seq < me.add_seq);
                            if p.act.salience == me.act.salience && earlier {
                                let v = viol(
                                    "ord.fifo-among-equals",
                                    site,
                                    if p.created_ns < me.created_ns { "later-created-before-earlier-among-equal-salience-distinct-instants" } else { "later-created-before-earlier-among-equal-salience" },
                                    format!("returned #{} ({}, salience {}, stamped {} ns) before the earlier-created #{} (R{}, stamped {} ns) of equal salience in group {g}", me.seq, a.rule_name, me.act.salience, me.created_ns, p.seq, p.act.rule, p.created_ns),
                                    step,
                                );
                                if !obs.is_known(&v) {
                                    return Err(v);
                                }
                            }
                        }
                        // consumed: the returned one and everything the implementation skipped over
                        // (anything that outranks it and was not certainly eligible)
                        // did the implementation's order put p before me? Some(true/false), or None when the
                        // property leaves it open (equal instants, added in another order than created)
                        let before_me = |p: &Pending| -> Option<bool> {
                            if p.act.salience != me.act.salience {
                                return Some(p.act.salience > me.act.salience);
                            }
                            if p.created_ns != me.created_ns {
                                return Some(p.created_ns < me.created_ns);
                            }
                            if (p.seq < me.seq) == (p.add_seq < me.add_seq) {
                                Some(p.seq < me.seq)
                            } else {
                                None
                            }
                        };
                        let mut kept: Vec<Pending> = Vec::new();
                        for p in list.iter() {
                            if p.seq == me.seq {
                                continue;
                            }
                            let skippable = !certainly(p, &fired_rules, &fired_groups, &locked);
                            match before_me(p) {
                                Some(true) if skippable => {} // popped before me and skipped: consumed
                                None if skippable => {
                                    let mut q = p.clone();
                                    q.maybe_absent = true; // may have been popped and skipped
                                    kept.push(q);
                                }
                                _ => kept.push(p.clone()),
                            }
                        }
                        *list = kept;
                        if *mark {
                            ag.mark_rule_fired(&a);
                            fired_rules.insert(a.rule_name.clone());
                            if me.act.activation_group > 0 {
                                fired_groups.insert(agname(me.act.activation_group));
                            }
                            if a.lock_on_active {
                                locked.insert(a.agenda_group.clone());
                            }
                        }
                    }
                    None => {
                        // nothing certainly eligible may be pending in the focus or below it
                        let mut visited = vec![focus.clone()];
                        while let Some(f) = stack.pop() {
                            focus = f;
                            visited.push(focus.clone());
                        }
                        for v in &visited {
                            if let Some(p) = pending.get(v).and_then(|l| l.iter().find(|p| certainly(p, &fired_rules, &fired_groups, &locked))) {
                                return Err(viol(
                                    "ord.salience",
                                    site,
                                    "eligible-activation-never-returned",
                                    format!("get_next_activation returned None although #{} (R{}, salience {}) was pending and eligible in group {v}", p.seq, p.act.rule, p.act.salience),
                                    step,
                                ));
                            }
                            pending.remove(v);
                        }
                        obs.count("probe.agenda_drained");
                    }
                }
            }
        }
        if let Some((act, a, my_seq, created_ns)) = to_add {
            let g = group_name(a.agenda_group);
            ag.add_activation(act);
            if a.auto_focus && g != focus {
                stack.push(focus.clone());
                focus = g.clone();
                obs.count("probe.auto_focus_switched_group");
            }
            let maybe_absent = a.activation_group > 0 && fired_groups.contains(&agname(a.activation_group));
            let list = pending.entry(g).or_default();
            if list.iter().any(|p| p.act.salience == a.salience && p.created_ns == created_ns) {
                stalled_ties += 1;
                obs.count("probe.equal_salience_equal_instant_pair");
            }
            list.push(Pending { seq: my_seq, created_ns, add_seq, act: a, maybe_absent });
            if list.len() == 257 {
                obs.count("probe.more_than_256_activations_pending_in_a_group");
            }
            add_seq += 1;
        }
    }
    obs.nontrivial = returned >= 3;
    if ops.len() > 50 {
        obs.count("probe.history_of_more_than_50_operations");
    }
    if stalled_ties > 0 && returned >= 2 {
        obs.count("probe.run_with_instant_ties_and_pops");
    }
    clock::uninstall();
    Ok(())
}

// ------------------------------------------------------------------------------ workload B

fn cond_ops(c: u8) -> (&'static str, &'static str) {
    match c {
        0 => ("F.on", "=="),
        1 => ("F.x", "<"),
        2 => ("F.x", ">="),
        3 => ("F.x", "!="),
        _ => ("F.y", "=="),
    }
}

fn cond_value(r: &BRule) -> String {
    match r.cond {
        0 => "true".to_string(),
        4 => (r.cond_value.rem_euclid(2) == 0).to_string(),
        _ => r.cond_value.to_string(),
    }
}

#[allow(clippy::too_many_arguments)]
fn run_b(engine: Engine, rules: &[BRule], x0: i64, nfacts: u8, second_call: bool, between: u8, ctor: u8, obs: &mut Obs) -> Result<(), Violation> {
    if ctor == 1 {
        obs.count("probe.engine_built_with_default");
    }
    clock::install(1_700_000_000_000);
    clock::set_mono_tick_pattern(vec![0, 0, 1]);
    let n = rules.len().max(1) as u64;
    let (site, bound): (&str, u64) = match engine {
        Engine::Incremental => ("IncrementalEngine::fire_all", 1000),
        Engine::Typed => ("TypedReteUlEngine::fire_all", 1000),
        Engine::Plain => ("ReteUlEngine::fire_all", 100),
    };
    // every action invocation and every clock read (one per activation created) spends a unit:
    // an engine that honours its iteration bound stays far below this
    let step_budget = 4 * 1000 * (n * (nfacts as u64 + 2) + 1);
    let looping = rules.iter().any(|r| !r.no_loop);
    if looping {
        obs.count("probe.rule_set_with_rule_without_no_loop");
    }
    if rules.iter().any(|r| r.salience == i32::MIN || r.salience == i32::MAX) {
        obs.count("probe.extreme_salience");
    }
    let calls = if second_call { 2 } else { 1 };
    let mut total_fired = 0usize;
    // names fired since the last reset, before the call being judged
    let carry: std::cell::RefCell<Vec<String>> = std::cell::RefCell::new(Vec::new());
    let judge = |r: Result<Vec<String>, Box<dyn std::any::Any + Send>>, call: usize, obs: &mut Obs| -> Result<usize, Violation> {
        match r {
            Ok(list) => {
                let max_list = match engine {
                    Engine::Incremental => bound as usize,
                    _ => (bound * n) as usize,
                };
                if list.len() > max_list {
                    return Err(viol("liveness.bounded", site, "fired-more-than-the-iteration-bound-allows", format!("fire_all returned {} firings, its bound allows {max_list}", list.len()), call));
                }
                if list.len() as u64 >= bound {
                    obs.count("probe.iteration_bound_reached");
                }
                // noloop.once at the engines: between resets (the second call follows a reset) a no-loop rule
                // is in the returned list at most once, however many facts match it and whatever its action does
                for (i, r) in rules.iter().enumerate().filter(|(_, r)| r.no_loop) {
                    let earlier = carry.borrow().iter().filter(|nm| **nm == format!("R{i}")).count();
                    let k = earlier + list.iter().filter(|nm| **nm == format!("R{i}")).count();
                    if earlier > 0 {
                        obs.count("probe.no_loop_record_carried_over_a_client_write");
                    }
                    if k > 1 {
                        return Err(viol("noloop.once", site, "no-loop-rule-fired-more-than-once-in-fire-all", format!("no-loop rule R{i} ({r:?}) fired {k} times since the last reset (earlier calls: {:?}; this call: {list:?})", carry.borrow()), call));
                    }
                    if k == 1 {
                        obs.count("probe.no_loop_rule_fired_in_engine_run");
                    }
                }
                carry.borrow_mut().extend(list.iter().cloned());
                Ok(list.len())
            }
            Err(p) => {
                if p.downcast_ref::<budget::StepBudgetExceeded>().is_some() {
                    Err(viol(
                        "liveness.bounded",
                        site,
                        "fire-all-did-not-return-within-step-budget",
                        format!("fire_all kept invoking rule actions: step budget of {step_budget} call-backs exhausted (rules {rules:?})"),
                        call,
                    ))
                } else {
                    Err(viol("liveness.bounded", site, "fire-all-panicked", format!("fire_all panicked: {}", panic_text(&p)), call))
                }
            }
        }
    };
    match engine {
        Engine::Plain => {
            let mut e = if ctor == 1 { ReteUlEngine::default() } else { ReteUlEngine::new() };
            for (i, r) in rules.iter().enumerate() {
                let (field, op) = cond_ops(r.cond);
                let node = ReteUlNode::UlAlpha(AlphaNode { field: field.to_string(), operator: op.to_string(), value: cond_value(r) });
                let (act, av) = (r.action, r.action_value);
                e.add_rule_with_action(format!("R{i}"), node, r.salience, r.no_loop, move |f: &mut std::collections::HashMap<String, String>| {
                    budget::tick();
                    let x: i64 = f.get("F.x").and_then(|s| s.parse().ok()).unwrap_or(0);
                    match act {
                        1 => {
                            f.insert("F.x".into(), (x + 1).to_string());
                        }
                        2 => {
                            f.insert("F.x".into(), av.to_string());
                        }
                        3 => {
                            let y = f.get("F.y").map(|s| s == "true").unwrap_or(false);
                            f.insert("F.y".into(), (!y).to_string());
                        }
                        4 => {
                            f.insert("F.x".into(), (x - 1).to_string());
                        }
                        _ => {}
                    }
                });
            }
            e.set_fact("F.on".into(), "true".into());
            e.set_fact("F.x".into(), x0.to_string());
            e.set_fact("F.y".into(), "true".into());
            for c in 0..calls {
                let r = budget::with_budget(step_budget, || e.fire_all());
                total_fired += judge(r, c, obs)?;
                if c == 0 && second_call {
                    match between % 4 {
                        0 => {
                            e.reset_fired_flags();
                            carry.borrow_mut().clear();
                        }
                        // no reset: what fired stays fired, whether the client writes a fact in between or not
                        1 => {}
                        2 => e.set_fact("F.x".into(), x0.to_string()),
                        _ => e.set_fact("F.on".into(), "true".into()),
                    }
                }
            }
        }
        Engine::Typed => {
            let mut e = if ctor == 1 { TypedReteUlEngine::default() } else { TypedReteUlEngine::new() };
            for (i, r) in rules.iter().enumerate() {
                let (field, op) = cond_ops(r.cond);
                let node = ReteUlNode::UlAlpha(AlphaNode { field: field.to_string(), operator: op.to_string(), value: cond_value(r) });
                let (act, av) = (r.action, r.action_value);
                e.add_rule_with_action(format!("R{i}"), node, r.salience, r.no_loop, move |f: &mut TypedFacts, _res| {
                    budget::tick();
                    let x = f.get("F.x").and_then(|v| v.as_integer()).unwrap_or(0);
                    match act {
                        1 => f.set("F.x", x + 1),
                        2 => f.set("F.x", av),
                        3 => {
                            let y = f.get("F.y").and_then(|v| v.as_boolean()).unwrap_or(false);
                            f.set("F.y", !y)
                        }
                        4 => f.set("F.x", x - 1),
                        _ => {}
                    }
                });
            }
            e.set_fact("F.on", true);
            e.set_fact("F.x", x0);
            e.set_fact("F.y", true);
            for c in 0..calls {
                let r = budget::with_budget(step_budget, || e.fire_all());
                total_fired += judge(r, c, obs)?;
                if c == 0 && second_call {
                    match between % 4 {
                        0 => {
                            e.reset_fired_flags();
                            carry.borrow_mut().clear();
                        }
                        1 => {}
                        2 => e.set_fact("F.x", x0),
                        _ => e.set_fact("F.on", true),
                    }
                }
            }
        }
        Engine::Incremental => {
            let mut e = if ctor == 1 { IncrementalEngine::default() } else { IncrementalEngine::new() };
            for (i, r) in rules.iter().enumerate() {
                let (field, op) = cond_ops(r.cond);
                let node = ReteUlNode::UlAlpha(AlphaNode { field: field.to_string(), operator: op.to_string(), value: cond_value(r) });
                let (act, av) = (r.action, r.action_value);
                let rule = TypedReteUlRule {
                    name: format!("R{i}"),
                    node,
                    priority: r.salience,
                    no_loop: r.no_loop,
                    action: Arc::new(move |f: &mut TypedFacts, _res| {
                        budget::tick();
                        let x = f.get("F.x").and_then(|v| v.as_integer()).unwrap_or(0);
                        match act {
                            1 => f.set("F.x", x + 1),
                            2 => f.set("F.x", av),
                            3 => {
                                let y = f.get("F.y").and_then(|v| v.as_boolean()).unwrap_or(false);
                                f.set("F.y", !y)
                            }
                            4 => f.set("F.x", x - 1),
                            _ => {}
                        }
                    }),
                };
                e.add_rule(rule, vec!["F".to_string()]);
            }
            let mk = |x: i64, y: bool| {
                let mut d = TypedFacts::new();
                d.set("on", true);
                d.set("x", x);
                d.set("y", FactValue::Boolean(y));
                d
            };
            let mut first = None;
            for k in 0..nfacts.max(1) {
                let h = e.insert("F".to_string(), mk(x0 + k as i64, true));
                first.get_or_insert(h);
            }
            for c in 0..calls {
                let r = budget::with_budget(step_budget, || e.fire_all());
                total_fired += judge(r, c, obs)?;
                if c == 0 && second_call {
                    match between % 4 {
                        0 => {
                            e.reset();
                            carry.borrow_mut().clear();
                            e.insert("F".to_string(), mk(x0, false));
                        }
                        // the client writes working memory, but does not reset: what fired stays fired
                        1 => {
                            if let Some(h) = first {
                                let _ = e.update(h, mk(x0, true));
                            }
                        }
                        2 => {
                            e.insert("F".to_string(), mk(x0, true));
                        }
                        _ => {
                            if let Some(h) = first {
                                let _ = e.retract(h);
                            }
                            e.insert("F".to_string(), mk(x0, true));
                        }
                    }
                }
            }
        }
    }
    obs.nontrivial = looping && total_fired >= 2;
    clock::uninstall();
    Ok(())
}

impl World for AgendaWorld {
    type Trace = AgendaTrace;
    fn name(&self) -> &'static str {
        "agenda"
    }
    fn info(&self, _prop: &str) -> WorldInfo {
        WorldInfo {
            level: "exploration",
            rule: "workload A (3 of 4 runs): <=14 operations add_activation (salience from 3 values incl. ties, 3 agenda groups, 2 \
                   activation groups, no-loop / lock-on-active / auto-focus coins) / get_next_activation (+mark_rule_fired) / \
                   set_focus / reset_fired_flags / clear, activations created under a monotonic clock that advances, stalls for \
                   consecutive creations or moves by 1 ns; workload B: rule sets of 1-4 rules incl. always-true rules without \
                   no-loop, mutually re-enabling rules and salience i32::MIN/MAX on IncrementalEngine, TypedReteUlEngine and \
                   ReteUlEngine, fire_all under a step budget (4 x 1000 x (rules x facts) call-backs: rule actions and clock reads). Non-trivial: A — >=3 \
                   activations came back; B — a rule without no-loop and >=2 firings. distinct = fingerprint of the trace"
                .into(),
            real: vec!["AdvancedAgenda", "Activation (Ord)", "IncrementalEngine", "TypedReteUlEngine", "ReteUlEngine", "AlphaNode / evaluate_rete_ul_node(_typed)"],
            stub: vec!["SimClock (monotonic, behind Activation::created_at)", "client", "rule action closures (harness, spend step budget)", "hash seed"],
            assumptions: vec![
                "'earlier created' is judged by the simulated instant an activation was stamped with; when two instants tie, by creation order — unless the two were handed to add_activation in another order than they were created (one run in three creates activations first and adds them later), which the property does not settle (either)".into(),
                "lock-on-active and activations added after their activation group fired are not in the property: such activations may be skipped or dropped (three-valued), they never force an ordering violation".into(),
                "if the focus reported by get_focus() disagrees with the harness's focus stack the run stops being judged (counted in probe.focus_model_mismatch; 0 on the pinned tree)".into(),
                "a loop that spins without ever invoking a rule action is outside the step budget; the driver's wall-clock watchdog is the backstop".into(),
            ],
            hang_is_a_verdict: true,
            required_probes: vec![
                "fault.clock_stalled_at_creation",
                "fault.clock_minimum_step",
                "probe.equal_salience_equal_instant_pair",
                "probe.run_with_instant_ties_and_pops",
                "probe.auto_focus_switched_group",
                "probe.focus_popped_after_exhaustion",
                "probe.reset_fired_flags",
                "probe.rule_set_with_rule_without_no_loop",
                "probe.extreme_salience",
                "probe.iteration_bound_reached",
                "probe.activation_created_and_held_back",
                "probe.added_in_another_order_than_created",
                "probe.agenda_constructed_after_activations_were_created",
                "probe.history_of_more_than_50_operations",
                "probe.conflict_resolution_strategy_set",
            ],
            quick_runs: 600_000,
            thorough_runs: 12_000_000,
        }
    }

    fn generate(&self, _prop: &str, _tier: Tier, rng: &mut Rng) -> AgendaTrace {
        let hash_seed = rng.next_u64();
        if rng.chance(3, 4) {
            // one run in forty: a long history (60-150 operations over 40 rule names) — a heap of a hundred
            // activations orders differently from one of five
            let long = rng.chance(1, 40);
            let n = if long { 60 + rng.usize(90) } else { 3 + rng.usize(12) };
            let nrules: u64 = if long { 40 } else { 5 };
            let clock_mode = rng.usize(4); // 0 advancing, 1 stalled runs, 2 minimum step, 3 frozen
            let groups = 1 + rng.usize(3) as u8;
            // one run in three creates some activations first and adds them later, in another order
            let split = rng.chance(1, 3);
            // one run in four calls set_strategy now and then
            let strategies = rng.chance(1, 4);
            let sal = [*rng.pick(&[-1i32, 0, 5]), 0, *rng.pick(&[10i32, i32::MAX, 1])];
            let mut ops = Vec::new();
            let mut stall_left = 0;
            // one run in 250: a backlog — 260-340 activations of five rules are added before anything is
            // popped, most of them to one group (housekeeping that only starts at a few hundred pending entries)
            let backlog = !long && rng.chance(1, 250);
            if backlog {
                for _ in 0..260 + rng.usize(80) {
                    ops.push(AOp::Add(Act {
                        rule: rng.below(nrules) as u8,
                        salience: *rng.pick(&sal),
                        agenda_group: if rng.chance(1, 8) { rng.below(groups as u64) as u8 } else { 0 },
                        activation_group: 0,
                        no_loop: rng.chance(1, 2),
                        lock_on_active: false,
                        auto_focus: false,
                        clock_step_ns: if clock_mode == 3 { 0 } else { rng.range(1, 50) as u32 },
                    }));
                }
            }
            for _ in 0..n {
                let w = rng.weighted(&[42, 30, 6, 6, 3, if split { 12 } else { 0 }, if split { 12 } else { 0 }, if strategies { 5 } else { 0 }]);
                ops.push(match w {
                    7 => AOp::SetStrategy(rng.below(8) as u8),
                    5 | 6 => {
                        if w == 6 {
                            AOp::AddHeld(rng.below(4) as u8)
                        } else {
                            AOp::Create(Act {
                                rule: rng.below(nrules) as u8,
                                salience: *rng.pick(&sal),
                                agenda_group: rng.below(groups as u64) as u8,
                                activation_group: *rng.pick(&[0u8, 0, 0, 1, 2]),
                                no_loop: rng.chance(1, 2),
                                lock_on_active: false,
                                auto_focus: false,
                                clock_step_ns: if clock_mode == 0 { rng.range(1, 1000) as u32 } else { *rng.pick(&[0u32, 0, 1, 30]) },
                            })
                        }
                    }
                    0 => {
                        let step = match clock_mode {
                            0 => rng.range(1, 1000) as u32,
                            1 => {
                                if stall_left > 0 {
                                    stall_left -= 1;
                                    0
                                } else {
                                    if rng.chance(1, 2) {
                                        stall_left = 1 + rng.usize(5);
                                    }
                                    rng.range(1, 50) as u32
                                }
                            }
                            2 => 1,
                            _ => 0,
                        };
                        AOp::Add(Act {
                            rule: rng.below(nrules) as u8,
                            salience: *rng.pick(&sal),
                            agenda_group: rng.below(groups as u64) as u8,
                            activation_group: *rng.pick(&[0u8, 0, 0, 1, 2]),
                            no_loop: rng.chance(1, 2),
                            lock_on_active: rng.chance(1, 8),
                            auto_focus: rng.chance(1, 8),
                            clock_step_ns: step,
                        })
                    }
                    1 => AOp::Next { mark: !rng.chance(1, 6) },
                    2 => AOp::SetFocus(rng.below(groups as u64) as u8),
                    3 => AOp::ResetFired,
                    _ => {
                        if split && rng.chance(1, 2) {
                            AOp::NewAgenda(*rng.pick(&[0u32, 1, 500, 1_000_000]))
                        } else {
                            AOp::Clear
                        }
                    }
                });
            }
            if split {
                for _ in 0..3 {
                    ops.push(AOp::AddHeld(rng.below(4) as u8));
                }
            }
            // drain at the end so that every pending activation is either returned or judged
            for _ in 0..(if long { n / 2 } else if backlog { 20 + rng.usize(30) } else { rng.usize(6) }) {
                ops.push(AOp::Next { mark: true });
            }
            AgendaTrace::A { hash_seed, ops }
        } else {
            let n = 1 + rng.usize(4);
            let rules = (0..n)
                .map(|_| BRule {
                    salience: *rng.pick(&[0i32, 0, 1, -1, 10, i32::MAX, i32::MIN]),
                    no_loop: rng.chance(1, 2),
                    cond: rng.below(5) as u8,
                    cond_value: rng.range(-1, 4),
                    action: rng.below(5) as u8,
                    action_value: rng.range(-1, 4),
                })
                .collect();
            AgendaTrace::B {
                hash_seed,
                engine: *rng.pick(&[Engine::Incremental, Engine::Typed, Engine::Typed, Engine::Plain]),
                rules,
                x0: rng.range(-1, 3),
                facts: 1 + rng.below(3) as u8,
                second_call: rng.chance(1, 2),
                between: *rng.pick(&[0u8, 0, 1, 2, 3]),
                ctor: rng.below(2) as u8,
            }
        }
    }

    fn hash_seed(&self, t: &AgendaTrace) -> u64 {
        match t {
            AgendaTrace::A { hash_seed, .. } | AgendaTrace::B { hash_seed, .. } => *hash_seed,
        }
    }

    fn run(&self, _prop: &str, t: &AgendaTrace, obs: &mut Obs) -> Result<(), Violation> {
        obs.fp_str(&serde_json::to_string(t).unwrap_or_default());
        match t {
            AgendaTrace::A { ops, .. } => {
                obs.faulty = ops.iter().any(|o| matches!(o, AOp::Add(a) | AOp::Create(a) if a.clock_step_ns <= 1));
                run_a(ops, obs)
            }
            AgendaTrace::B { engine, rules, x0, facts, second_call, between, ctor, .. } => {
                obs.faulty = true;
                run_b(*engine, rules, *x0, *facts, *second_call, *between, *ctor, obs)
            }
        }
    }

    fn shrink(&self, t: &AgendaTrace) -> Vec<AgendaTrace> {
        let mut out = Vec::new();
        match t {
            AgendaTrace::A { hash_seed, ops } => {
                for v in drop_chunks(ops) {
                    out.push(AgendaTrace::A { hash_seed: *hash_seed, ops: v });
                }
                for i in 0..ops.len() {
                    if let AOp::Add(a) | AOp::Create(a) = &ops[i] {
                        let is_create = matches!(&ops[i], AOp::Create(_));
                        let mut alts = Vec::new();
                        let mut push = |f: &dyn Fn(&mut Act)| {
                            let mut b = a.clone();
                            f(&mut b);
                            if b != *a {
                                alts.push(b);
                            }
                        };
                        push(&|b| b.auto_focus = false);
                        push(&|b| b.lock_on_active = false);
                        push(&|b| b.activation_group = 0);
                        push(&|b| b.agenda_group = 0);
                        push(&|b| b.no_loop = false);
                        push(&|b| b.salience = 0);
                        push(&|b| b.clock_step_ns = 0);
                        for b in alts {
                            let mut c = ops.clone();
                            c[i] = if is_create { AOp::Create(b) } else { AOp::Add(b) };
                            out.push(AgendaTrace::A { hash_seed: *hash_seed, ops: c });
                        }
                    }
                }
                if *hash_seed != 1 {
                    out.push(AgendaTrace::A { hash_seed: 1, ops: ops.clone() });
                }
            }
            AgendaTrace::B { hash_seed, engine, rules, x0, facts, second_call, between, ctor } => {
                let mk = |rules: Vec<BRule>, x0: i64, facts: u8, second_call: bool| AgendaTrace::B { hash_seed: *hash_seed, engine: *engine, rules, x0, facts, second_call, between: *between, ctor: *ctor };
                for v in drop_chunks(rules) {
                    if !v.is_empty() {
                        out.push(mk(v, *x0, *facts, *second_call));
                    }
                }
                if *second_call {
                    out.push(mk(rules.clone(), *x0, *facts, false));
                }
                if *facts > 1 {
                    out.push(mk(rules.clone(), *x0, 1, *second_call));
                }
                if *x0 != 0 {
                    out.push(mk(rules.clone(), 0, *facts, *second_call));
                }
                for i in 0..rules.len() {
                    let r = &rules[i];
                    let mut alts = Vec::new();
                    let mut push = |f: &dyn Fn(&mut BRule)| {
                        let mut b = r.clone();
                        f(&mut b);
                        if b != *r {
                            alts.push(b);
                        }
                    };
                    push(&|b| b.cond = 0);
                    push(&|b| b.action = 0);
                    push(&|b| b.salience = 0);
                    push(&|b| b.no_loop = true);
                    for b in alts {
                        let mut c = rules.clone();
                        c[i] = b;
                        out.push(mk(c, *x0, *facts, *second_call));
                    }
                }
            }
        }
        out
    }
}
