//! World `window` (C12): TimeWindow::record, WindowManager, WindowedStream (tumbling) and
//! StreamAlphaNode under the simulated wall clock, fed by a simulated network that reorders,
//! delays and bursts events; aggregates are compared with a fold over the window's own events.

use crate::core::rng::Rng;
use crate::core::{clock, drop_chunks, Obs, Tier, Violation, World, WorldInfo};
use rust_rule_engine::rete::stream_alpha_node::{StreamAlphaNode, WindowSpec};
use rust_rule_engine::streaming::aggregator::{AggregationResult, AggregationType, Aggregator};
use rust_rule_engine::streaming::event::StreamEvent;
use rust_rule_engine::streaming::operators::{
    AggregateResult, Aggregation, Average, Count, Max, Min, Sum, WindowConfig, WindowedStream,
};
use rust_rule_engine::streaming::window::{TimeWindow, WindowManager, WindowType};
use rust_rule_engine::types::Value;
use serde::{Deserialize, Serialize};
use std::collections::{BTreeMap, BTreeSet, HashMap};
use std::time::Duration;

const PROP: &str = "C12";
/// a common multiple of every window size in play, in the realistic epoch range
const CLOCK_BASE_MS: u64 = 1_700_000_000_400; // divisible by 1,2,3,5,10 -> see assert in run

#[derive(Clone, Copy, Debug, Serialize, Deserialize, PartialEq)]
pub enum Kind {
    Record,
    Manager,
    Batch,
    AlphaSliding,
    AlphaTumbling,
    AlphaNoWindow,
}

#[derive(Clone, Copy, Debug, Serialize, Deserialize, PartialEq)]
pub enum Field {
    Int(i64),
    /// an integral float
    Num(i64),
    Text,
    Missing,
    /// a string that looks like a number ("7"): not a numeric field — aggregates must skip it like any other text
    NumText(i64),
    /// a float from `FRACS`: decimals that have no exact binary form and magnitudes that absorb small addends,
    /// so that a sum depends on which events are folded (and a running total that adds and subtracts drifts)
    Frac(u8),
}

const FRACS: [f64; 8] = [0.1, 0.2, 0.3, 0.7, 1e17, -1e17, 1.0e-3, 12345.678];

#[derive(Clone, Debug, Serialize, Deserialize, PartialEq)]
pub struct Ev {
    /// event-time stamp; for the Alpha kinds an offset relative to the clock at delivery (may be negative)
    pub ts: i64,
    pub field: Field,
    /// Alpha kinds: clock movement before delivery, ms (negative = step back)
    pub clock_adv: i64,
    /// Alpha kinds: source / type mismatch
    pub wrong_source: bool,
    pub wrong_type: bool,
    /// `TimeWindow::record` kind: this event goes in through `add_event` instead of `record` (a window filled both
    /// ways); what `add_event` does with it is not judged, what the next `record` leaves behind is
    #[serde(default)]
    pub via_add: bool,
}

#[derive(Clone, Debug, Serialize, Deserialize)]
pub struct WinTrace {
    pub hash_seed: u64,
    pub kind: Kind,
    pub duration_ms: u64,
    pub cap: usize,
    pub max_windows: usize,
    pub events: Vec<Ev>,
    pub tick_pattern: Vec<u8>,
}

pub struct WindowWorld;

fn mk_event(i: usize, ts: u64, e: &Ev) -> StreamEvent {
    let mut data = HashMap::new();
    match e.field {
        Field::Int(v) => {
            data.insert("v".to_string(), Value::Integer(v));
        }
        Field::Num(v) => {
            data.insert("v".to_string(), Value::Number(v as f64));
        }
        Field::Text => {
            data.insert("v".to_string(), Value::String("n/a".to_string()));
        }
        Field::Missing => {}
        Field::NumText(v) => {
            data.insert("v".to_string(), Value::String(v.to_string()));
        }
        Field::Frac(k) => {
            data.insert("v".to_string(), Value::Number(FRACS[k as usize % FRACS.len()]));
        }
    }
    let src = if e.wrong_source { "other" } else { "src" };
    let ty = if e.wrong_type { "Other" } else { "E" };
    let mut ev = StreamEvent::with_timestamp(ty, data, src, ts);
    ev.id = format!("e{i}");
    ev
}

fn numeric(e: &Ev) -> Option<f64> {
    match e.field {
        Field::Int(v) | Field::Num(v) => Some(v as f64),
        Field::Frac(k) => Some(FRACS[k as usize % FRACS.len()]),
        _ => None,
    }
}

fn idx_of(id: &str) -> usize {
    id[1..].parse().unwrap_or(usize::MAX)
}

struct Fold {
    count: usize,
    sum: f64,
    avg: Option<f64>,
    min: Option<f64>,
    max: Option<f64>,
}

fn fold(members: &[usize], evs: &[Ev]) -> Fold {
    let vals: Vec<f64> = members.iter().filter_map(|i| numeric(&evs[*i])).collect();
    let sum: f64 = vals.iter().sum();
    Fold {
        count: members.len(),
        sum,
        avg: if vals.is_empty() { None } else { Some(sum / vals.len() as f64) },
        min: vals.iter().cloned().fold(None, |a: Option<f64>, x| Some(a.map_or(x, |m| m.min(x)))),
        max: vals.iter().cloned().fold(None, |a: Option<f64>, x| Some(a.map_or(x, |m| m.max(x)))),
    }
}

fn agg_num(r: AggregationResult) -> Option<f64> {
    match r {
        AggregationResult::Number(n) => Some(n),
        _ => None,
    }
}

fn op_num(r: AggregateResult) -> Option<f64> {
    match r {
        AggregateResult::Number(n) => Some(n),
        _ => None,
    }
}

thread_local! {
    /// the run's five LONG-LIVED aggregators (count, sum, average, min, max): asked about every window state of
    /// the run, one after the other — an aggregator that remembered anything between two questions would show
    static AGGS: std::cell::RefCell<Option<Vec<Aggregator>>> = const { std::cell::RefCell::new(None) };
}

fn reset_aggregators() {
    let fld = || "v".to_string();
    AGGS.with(|a| {
        *a.borrow_mut() = Some(vec![
            Aggregator::new(AggregationType::Count),
            Aggregator::new(AggregationType::Sum { field: fld() }),
            Aggregator::new(AggregationType::Average { field: fld() }),
            Aggregator::new(AggregationType::Min { field: fld() }),
            Aggregator::new(AggregationType::Max { field: fld() }),
        ])
    });
}

/// agg.fold on one TimeWindow: its own methods and the Aggregator against the fold over events()
fn check_window_aggregates(w: &TimeWindow, evs: &[Ev], site: &str, step: usize, obs: &mut Obs) -> Result<(), Violation> {
    let members: Vec<usize> = w.events().iter().map(|e| idx_of(&e.id)).collect();
    let f = fold(&members, evs);
    // Windows of integral values: the fold is exact in any order and the comparison is equality. Windows holding
    // inexact values: "the same fold over exactly its events" is read as a fold in SOME order — any two orders
    // agree to within rounding, i.e. a tiny fraction of the sum of the magnitudes folded — so a result is accepted
    // iff it is that close to the in-order fold. A total that still carries events which have left the window
    // (or lost precision to them) is not.
    let inexact = members.iter().any(|i| matches!(evs[*i].field, Field::Frac(_)));
    let scale: f64 = members.iter().filter_map(|i| numeric(&evs[*i])).map(f64::abs).sum();
    let nvals = members.iter().filter(|i| numeric(&evs[**i]).is_some()).count().max(1) as f64;
    let near = move |got: f64, want: f64, scale: f64| got == want || (inexact && (got - want).abs() <= 1e-9 * scale);
    let near_o = move |got: Option<f64>, want: Option<f64>, scale: f64| match (got, want) {
        (Some(g), Some(w)) => near(g, w, scale),
        (None, None) => true,
        _ => false,
    };
    if inexact {
        obs.count("probe.window_holding_inexact_values");
    }
    let bad = |what: &str, got: String, want: String| {
        Err(Violation::new(
            PROP,
            "agg.fold",
            site,
            &format!("{what}-differs-from-fold"),
            format!("{what} over window members {members:?}: got {got}, fold gives {want}"),
            step,
        ))
    };
    if w.count() != f.count {
        return bad("count", w.count().to_string(), f.count.to_string());
    }
    if !near(w.sum("v"), f.sum, scale) {
        return bad("sum", w.sum("v").to_string(), f.sum.to_string());
    }
    if !near_o(w.average("v"), f.avg, scale / nvals) {
        return bad("average", format!("{:?}", w.average("v")), format!("{:?}", f.avg));
    }
    if w.min("v") != f.min {
        return bad("min", format!("{:?}", w.min("v")), format!("{:?}", f.min));
    }
    if w.max("v") != f.max {
        return bad("max", format!("{:?}", w.max("v")), format!("{:?}", f.max));
    }
    let fld = || "v".to_string();
    // asked of the run's long-lived aggregator of that kind (the first question of a run is a fresh one anyway)
    let a = |t: AggregationType| {
        let k = match &t {
            AggregationType::Count => 0,
            AggregationType::Sum { .. } => 1,
            AggregationType::Average { .. } => 2,
            AggregationType::Min { .. } => 3,
            _ => 4,
        };
        AGGS.with(|g| match g.borrow().as_ref() {
            Some(v) => agg_num(v[k].aggregate(w)),
            None => agg_num(Aggregator::new(t).aggregate(w)),
        })
    };
    if a(AggregationType::Count) != Some(f.count as f64) {
        return bad("aggregator-count", format!("{:?}", a(AggregationType::Count)), f.count.to_string());
    }
    if !near_o(a(AggregationType::Sum { field: fld() }), Some(f.sum), scale) {
        return bad("aggregator-sum", format!("{:?}", a(AggregationType::Sum { field: fld() })), f.sum.to_string());
    }
    if !near_o(a(AggregationType::Average { field: fld() }), f.avg, scale / nvals) {
        return bad("aggregator-average", format!("{:?}", a(AggregationType::Average { field: fld() })), format!("{:?}", f.avg));
    }
    if a(AggregationType::Min { field: fld() }) != f.min {
        return bad("aggregator-min", format!("{:?}", a(AggregationType::Min { field: fld() })), format!("{:?}", f.min));
    }
    if a(AggregationType::Max { field: fld() }) != f.max {
        return bad("aggregator-max", format!("{:?}", a(AggregationType::Max { field: fld() })), format!("{:?}", f.max));
    }
    if members.iter().any(|i| numeric(&evs[*i]).is_none()) && f.avg.is_some() {
        obs.count("probe.aggregate_skips_non_numeric");
    }
    Ok(())
}

fn aligned(ts: u64, w: u64) -> u64 {
    (ts / w) * w
}

/// members must be a suffix (by arrival) of the offered events whose stamp lies in the span
fn is_suffix_of_span(members: &[usize], offered: &[usize], evs: &[Ev], lo: u64, hi: u64) -> bool {
    let in_span: Vec<usize> = offered.iter().cloned().filter(|i| (evs[*i].ts as u64) >= lo && (evs[*i].ts as u64) < hi).collect();
    in_span.ends_with(members)
}

/// the duration as the library gets it: the two largest values stand for `Duration::MAX` and
/// `Duration::from_secs(1 << 61)` (more than 2^64 ms) — a window that never slides anything out
fn dur_of(ms: u64) -> Duration {
    match ms {
        u64::MAX => Duration::MAX,
        x if x == u64::MAX - 1 => Duration::from_secs(1 << 61),
        ms => Duration::from_millis(ms),
    }
}

/// the duration in milliseconds as the model sees it: both "unbounded" encodings are more than any u64 count
/// of milliseconds, i.e. u64::MAX once saturated
fn eff_ms(ms: u64) -> u64 {
    if ms >= u64::MAX - 1 {
        u64::MAX
    } else {
        ms
    }
}

fn run_record(t: &WinTrace, obs: &mut Obs) -> Result<(), Violation> {
    let site = "TimeWindow::record";
    let d = eff_ms(t.duration_ms);
    if d == u64::MAX {
        obs.count("probe.duration_that_means_unbounded");
    }
    let mut w = TimeWindow::new(WindowType::Sliding, dur_of(t.duration_ms), 0, t.cap);
    let mut prev: Vec<usize> = Vec::new();
    let mut max_seen: Option<u64> = None;
    for (i, e) in t.events.iter().enumerate() {
        let ts = e.ts as u64;
        if let Some(m) = max_seen {
            if ts < m {
                obs.count("fault.reordered_arrival");
            }
            if ts == m {
                obs.count("probe.equal_stamp");
            }
        }
        max_seen = Some(max_seen.map_or(ts, |m| m.max(ts)));
        if e.via_add {
            let _ = w.add_event(mk_event(i, ts, e));
            obs.count("probe.event_put_into_a_sliding_window_without_record");
            prev = w.events().iter().map(|x| idx_of(&x.id)).collect();
            continue;
        }
        w.record(mk_event(i, ts, e));
        let now: Vec<usize> = w.events().iter().map(|x| idx_of(&x.id)).collect();
        let cutoff = ts.saturating_sub(d);
        // record.no-stale
        if let Some(stale) = now.iter().find(|k| (t.events[**k].ts as u64) < cutoff) {
            let pos = now.iter().position(|k| k == stale).unwrap();
            let behind_fresh = now[..pos].iter().any(|k| (t.events[*k].ts as u64) >= cutoff);
            let v = Violation::new(
                PROP,
                "record.no-stale",
                site,
                if behind_fresh { "stale-event-behind-fresh-front" } else { "stale-event-at-front" },
                format!("after record(e{i} ts {ts}) with duration {d}: retained e{stale} has ts {} < {cutoff}; retained {now:?}", t.events[*stale].ts),
                i,
            );
            if !obs.is_known(&v) {
                return Err(v);
            }
            // known: resynchronise on what the window holds and go on
            prev = now;
            continue;
        }
        // record.no-loss
        let mut q: Vec<usize> = prev.iter().cloned().filter(|k| (t.events[*k].ts as u64) >= cutoff).collect();
        q.push(i);
        if prev.len() + 1 > q.len() {
            obs.count("probe.record_evicted_by_age");
        }
        if ts == cutoff + d && prev.iter().any(|k| (t.events[*k].ts as u64) == cutoff) {
            obs.count("probe.event_exactly_on_trailing_boundary");
        }
        if q.len() <= t.cap {
            if now != q {
                let nowset: BTreeSet<usize> = now.iter().cloned().collect();
                let missing: Vec<usize> = q.iter().cloned().filter(|k| !nowset.contains(k)).collect();
                return Err(Violation::new(
                    PROP,
                    "record.no-loss",
                    site,
                    if missing.is_empty() { "retained-differs-from-qualifying" } else { "younger-event-dropped" },
                    format!("after record(e{i} ts {ts}) duration {d} cap {}: qualifying {q:?}, retained {now:?}", t.cap),
                    i,
                ));
            }
        } else {
            obs.count("probe.cap_eviction");
            let nowset: BTreeSet<usize> = now.iter().cloned().collect();
            let qset: BTreeSet<usize> = q.iter().cloned().collect();
            let ok_subset = nowset.is_subset(&qset) && now.len() == t.cap;
            let dropped: Vec<usize> = q.iter().cloned().filter(|k| !nowset.contains(k)).collect();
            // oldest-first by arrival: dropped is a prefix of q; by timestamp: every dropped ts <= every kept ts
            let by_arrival = q.starts_with(&dropped);
            let max_dropped = dropped.iter().map(|k| t.events[*k].ts).max();
            let min_kept = now.iter().map(|k| t.events[*k].ts).min();
            let by_ts = match (max_dropped, min_kept) {
                (Some(a), Some(b)) => a <= b,
                _ => true,
            };
            if !ok_subset || !(by_arrival || by_ts) {
                return Err(Violation::new(
                    PROP,
                    "record.no-loss",
                    site,
                    if !ok_subset { "cap-dropped-too-many-or-foreign" } else { "cap-dropped-not-oldest" },
                    format!("after record(e{i} ts {ts}) duration {d} cap {}: qualifying {q:?}, retained {now:?}", t.cap),
                    i,
                ));
            }
        }
        check_window_aggregates(&w, &t.events, site, i, obs)?;
        prev = now;
    }
    Ok(())
}

fn run_manager(t: &WinTrace, obs: &mut Obs) -> Result<(), Violation> {
    let site = "WindowManager::process_event";
    let d = eff_ms(t.duration_ms);
    let mut m = WindowManager::new(WindowType::Tumbling, dur_of(t.duration_ms), t.cap, t.max_windows);
    let mut offered: Vec<usize> = Vec::new();
    let mut max_seen: Option<u64> = None;
    for (i, e) in t.events.iter().enumerate() {
        let ts = e.ts as u64;
        if let Some(mx) = max_seen {
            if ts < mx {
                obs.count("fault.reordered_arrival");
                if aligned(ts, d) != aligned(mx, d) {
                    obs.count("probe.late_event_for_an_older_window");
                }
            }
        }
        max_seen = Some(max_seen.map_or(ts, |x| x.max(ts)));
        if ts % d == 0 {
            obs.count("probe.stamp_exactly_on_window_start");
        }
        if ts % d == d - 1 {
            obs.count("probe.stamp_on_last_ms_of_window");
        }
        m.process_event(mk_event(i, ts, e));
        offered.push(i);
        let wins = m.active_windows();
        // tumbling.one-window
        let holders: Vec<&TimeWindow> = wins.iter().filter(|w| w.events().iter().any(|x| x.id == format!("e{i}"))).collect();
        if holders.len() != 1 {
            return Err(Violation::new(
                PROP,
                "tumbling.one-window",
                site,
                if holders.is_empty() { "accepted-event-in-no-window" } else { "event-in-several-windows" },
                format!("after process_event(e{i} ts {ts}) window {d} ms: the event is in {} active windows (spans {:?})", holders.len(), wins.iter().map(|w| (w.start_time, w.end_time)).collect::<Vec<_>>()),
                i,
            ));
        }
        let h = holders[0];
        if h.start_time != aligned(ts, d) || h.end_time != aligned(ts, d).saturating_add(d) {
            return Err(Violation::new(
                PROP,
                "tumbling.one-window",
                site,
                "window-not-the-aligned-interval",
                format!("e{i} ts {ts} placed in window [{}, {}), aligned interval is [{}, {})", h.start_time, h.end_time, aligned(ts, d), aligned(ts, d).saturating_add(d)),
                i,
            ));
        }
        // tumbling.span + no duplicates + suffix membership
        let mut seen: BTreeSet<usize> = BTreeSet::new();
        let mut starts: BTreeSet<u64> = BTreeSet::new();
        for w in wins {
            if w.start_time % d != 0 || w.end_time != w.start_time.saturating_add(d) || !starts.insert(w.start_time) {
                return Err(Violation::new(PROP, "tumbling.span", site, "window-span-not-aligned-or-duplicated", format!("active window [{}, {}) with window size {d}", w.start_time, w.end_time), i));
            }
            let members: Vec<usize> = w.events().iter().map(|x| idx_of(&x.id)).collect();
            for k in &members {
                let kts = t.events[*k].ts as u64;
                if kts < w.start_time || kts >= w.end_time {
                    return Err(Violation::new(PROP, "tumbling.span", site, "member-outside-span", format!("e{k} ts {kts} is a member of window [{}, {})", w.start_time, w.end_time), i));
                }
                if !seen.insert(*k) {
                    return Err(Violation::new(PROP, "tumbling.one-window", site, "event-in-several-windows", format!("e{k} appears twice across the active windows"), i));
                }
            }
            if members.len() > t.cap {
                return Err(Violation::new(PROP, "tumbling.span", site, "window-over-cap", format!("window holds {} events, cap {}", members.len(), t.cap), i));
            }
            if !is_suffix_of_span(&members, &offered, &t.events, w.start_time, w.end_time) {
                return Err(Violation::new(
                    PROP,
                    "agg.fold",
                    site,
                    "members-not-latest-arrivals-of-span",
                    format!("window [{}, {}) holds {members:?}, which is not a suffix of the arrivals in that span", w.start_time, w.end_time),
                    i,
                ));
            }
            check_window_aggregates(w, &t.events, site, i, obs)?;
        }
    }
    Ok(())
}

fn run_batch_stream(t: &WinTrace, obs: &mut Obs) -> Result<(), Violation> {
    let site = "WindowedStream::new";
    let d = eff_ms(t.duration_ms);
    let events: Vec<StreamEvent> = t.events.iter().enumerate().map(|(i, e)| mk_event(i, e.ts as u64, e)).collect();
    let cfg = || WindowConfig {
        window_type: WindowType::Tumbling,
        duration: dur_of(t.duration_ms),
        max_events: t.cap,
    };
    let ws = WindowedStream::new(events.clone(), cfg());
    let offered: Vec<usize> = (0..t.events.len()).collect();
    // expected: per aligned start, the last `cap` arrivals of the span
    let mut expect: BTreeMap<u64, Vec<usize>> = BTreeMap::new();
    for (i, e) in t.events.iter().enumerate() {
        expect.entry(aligned(e.ts as u64, d)).or_default().push(i);
    }
    let mut seen: BTreeSet<usize> = BTreeSet::new();
    let mut starts: BTreeSet<u64> = BTreeSet::new();
    for w in ws.windows() {
        if w.start_time % d != 0 || w.end_time != w.start_time.saturating_add(d) || !starts.insert(w.start_time) {
            return Err(Violation::new(PROP, "tumbling.span", site, "window-span-not-aligned-or-duplicated", format!("window [{}, {}) with size {d}", w.start_time, w.end_time), 0));
        }
        let members: Vec<usize> = w.events().iter().map(|x| idx_of(&x.id)).collect();
        for k in &members {
            let kts = t.events[*k].ts as u64;
            if kts < w.start_time || kts >= w.end_time {
                return Err(Violation::new(PROP, "tumbling.span", site, "member-outside-span", format!("e{k} ts {kts} is a member of window [{}, {})", w.start_time, w.end_time), 0));
            }
            if !seen.insert(*k) {
                return Err(Violation::new(PROP, "tumbling.one-window", site, "event-in-several-windows", format!("e{k} appears in two windows"), 0));
            }
        }
        if !is_suffix_of_span(&members, &offered, &t.events, w.start_time, w.end_time) {
            return Err(Violation::new(PROP, "agg.fold", site, "members-not-latest-arrivals-of-span", format!("window [{}, {}) holds {members:?}", w.start_time, w.end_time), 0));
        }
        check_window_aggregates(w, &t.events, site, 0, obs)?;
    }
    for (start, all) in &expect {
        let keep = all.len().min(t.cap);
        let want: Vec<usize> = all[all.len() - keep..].to_vec();
        if all.len() > t.cap {
            obs.count("probe.cap_eviction");
        }
        let got = ws.windows().iter().find(|w| w.start_time == *start).map(|w| w.events().iter().map(|x| idx_of(&x.id)).collect::<Vec<_>>());
        if got.as_ref() != Some(&want) && !(want.is_empty() && got.is_none()) {
            return Err(Violation::new(
                PROP,
                "tumbling.one-window",
                site,
                if got.is_none() { "event-in-no-window" } else { "window-membership-differs" },
                format!("aligned window starting {start} (size {d}, cap {}): expected members {want:?}, got {got:?}", t.cap),
                0,
            ));
        }
    }
    // operators::{Count,Sum,Average,Min,Max} over the windows, matched by multiset (window order comes out of a HashMap)
    let mut want_rows: Vec<String> = Vec::new();
    for all in expect.values() {
        let keep = all.len().min(t.cap);
        if keep == 0 {
            continue;
        }
        let f = fold(&all[all.len() - keep..], &t.events);
        want_rows.push(format!("{:?}|{:?}|{:?}|{:?}|{:?}", Some(f.count as f64), Some(f.sum), f.avg, f.min, f.max));
    }
    want_rows.sort();
    let mut got_rows: Vec<String> = ws
        .windows()
        .iter()
        .map(|w| {
            let ev: Vec<StreamEvent> = w.events().iter().cloned().collect();
            format!(
                "{:?}|{:?}|{:?}|{:?}|{:?}",
                op_num(Count.aggregate(&ev)),
                op_num(Sum::new("v").aggregate(&ev)),
                op_num(Average::new("v").aggregate(&ev)),
                op_num(Min::new("v").aggregate(&ev)),
                op_num(Max::new("v").aggregate(&ev))
            )
        })
        .collect();
    got_rows.sort();
    if got_rows != want_rows {
        return Err(Violation::new(PROP, "agg.fold", site, "operator-aggregates-differ-from-fold", format!("per-window (count|sum|avg|min|max): got {got_rows:?}, fold gives {want_rows:?}"), 0));
    }
    // aggregate() and counts() consume the stream
    let mut counts = WindowedStream::new(events.clone(), cfg()).counts();
    counts.sort();
    let mut want_counts: Vec<usize> = expect.values().map(|a| a.len().min(t.cap)).filter(|n| *n > 0).collect();
    want_counts.sort();
    if counts != want_counts {
        return Err(Violation::new(PROP, "agg.fold", site, "counts-differ", format!("counts() {counts:?}, expected {want_counts:?}"), 0));
    }
    let mut sums: Vec<String> = WindowedStream::new(events, cfg()).aggregate(Sum::new("v")).into_iter().map(|r| format!("{:?}", op_num(r))).collect();
    sums.sort();
    let mut want_sums: Vec<String> = expect
        .values()
        .filter(|a| !a.is_empty())
        .map(|all| {
            let keep = all.len().min(t.cap);
            format!("{:?}", Some(fold(&all[all.len() - keep..], &t.events).sum))
        })
        .collect();
    want_sums.sort();
    if sums != want_sums {
        return Err(Violation::new(PROP, "agg.fold", site, "aggregate-sum-differs", format!("aggregate(Sum) {sums:?}, expected {want_sums:?}"), 0));
    }
    if expect.len() >= 2 {
        obs.count("probe.batch_with_several_windows");
    }
    Ok(())
}

fn in_window(kind: Kind, ts: u64, now: u64, d: u64) -> bool {
    match kind {
        Kind::AlphaSliding => ts >= now.saturating_sub(d) && ts <= now,
        Kind::AlphaTumbling => ts >= aligned(now, d) && ts < aligned(now, d).saturating_add(d),
        _ => true,
    }
}

fn run_alpha(t: &WinTrace, obs: &mut Obs) -> Result<(), Violation> {
    let site = match t.kind {
        Kind::AlphaSliding => "StreamAlphaNode(sliding)",
        Kind::AlphaTumbling => "StreamAlphaNode(tumbling)",
        _ => "StreamAlphaNode(no window)",
    };
    let d = eff_ms(t.duration_ms);
    clock::install(CLOCK_BASE_MS);
    clock::set_tick_pattern(t.tick_pattern.clone());
    let spec = match t.kind {
        Kind::AlphaSliding => Some(WindowSpec { duration: dur_of(t.duration_ms), window_type: WindowType::Sliding }),
        Kind::AlphaTumbling => Some(WindowSpec { duration: Duration::from_millis(d), window_type: WindowType::Tumbling }),
        _ => None,
    };
    let mut node = StreamAlphaNode::new("src", Some("E".to_string()), spec).with_max_events(t.cap);
    // (index, absolute stamp) of events the model believes retained, in arrival order
    let mut prev: Vec<(usize, u64)> = Vec::new();
    let mut stamps: Vec<u64> = Vec::new();
    for (i, e) in t.events.iter().enumerate() {
        if e.clock_adv > 0 {
            clock::advance_ms(e.clock_adv as u64);
        } else if e.clock_adv < 0 {
            clock::step_back_ms((-e.clock_adv) as u64);
            obs.count("fault.clock_step_back");
        } else {
            obs.count("fault.clock_stall");
        }
        let now0 = clock::now_ms();
        let ts = (now0 as i64 + e.ts).max(0) as u64;
        stamps.push(ts);
        let ev = mk_event(i, ts, e);
        clock::begin_call();
        let accepted = node.process_event(&ev);
        let reads = clock::shown_list();
        let (tmin, tmax) = match (reads.iter().min(), reads.iter().max()) {
            (Some(a), Some(b)) => (*a, *b),
            _ => (now0, now0),
        };
        if tmin != tmax {
            obs.count("fault.clock_ticked_between_reads");
        }
        let matches_filter = !e.wrong_source && !e.wrong_type;
        // alpha.window: acceptance, three-valued across the instants shown during the call
        let all_in = (tmin..=tmax).all(|n| in_window(t.kind, ts, n, d));
        let any_in = (tmin..=tmax).any(|n| in_window(t.kind, ts, n, d));
        if all_in != any_in {
            obs.count("probe.boundary_either");
        }
        let must_accept = matches_filter && all_in;
        let must_reject = !matches_filter || !any_in;
        if (must_accept && !accepted) || (must_reject && accepted) {
            return Err(Violation::new(
                PROP,
                "alpha.window",
                site,
                if accepted { "accepted-event-outside-window-or-filter" } else { "rejected-event-inside-window" },
                format!("process_event(e{i} ts {ts}, source ok {}, type ok {}) with clock reads {reads:?}, window {d} ms: returned {accepted}", !e.wrong_source, !e.wrong_type),
                i,
            ));
        }
        if matches_filter && t.kind != Kind::AlphaNoWindow {
            if (t.kind == Kind::AlphaSliding && (ts == tmin.saturating_sub(d) || ts == tmax)) || (t.kind == Kind::AlphaTumbling && (ts == aligned(tmin, d) || ts + 1 == aligned(tmin, d).saturating_add(d))) {
                obs.count("probe.stamp_exactly_on_window_boundary");
            }
        }
        let now: Vec<usize> = node.get_events().iter().map(|x| idx_of(&x.id)).collect();
        if !accepted {
            // a rejected event must not change what is retained
            let want: Vec<usize> = prev.iter().map(|p| p.0).collect();
            if now != want {
                return Err(Violation::new(PROP, "alpha.window", site, "rejected-event-changed-buffer", format!("e{i} was rejected but the buffer went from {want:?} to {now:?}"), i));
            }
            continue;
        }
        if t.kind == Kind::AlphaTumbling && prev.iter().any(|p| aligned(p.1, d) != aligned(ts, d)) {
            obs.count("probe.tumbling_window_rolled_over");
        }
        // stale: outside the window (old side) at every instant shown
        let old_side_out = |s: u64| match t.kind {
            Kind::AlphaSliding => s < tmin.saturating_sub(d),
            Kind::AlphaTumbling => s < aligned(tmin, d),
            _ => false,
        };
        // surely inside at every instant shown (old side only; a stamp ahead of the clock after a
        // clock step back is neither demanded nor forbidden)
        let surely_in = |s: u64| match t.kind {
            Kind::AlphaSliding => s >= tmax.saturating_sub(d),
            Kind::AlphaTumbling => s >= aligned(tmax, d),
            _ => true,
        };
        if let Some(k) = now.iter().find(|k| old_side_out(stamps[**k])) {
            let pos = now.iter().position(|x| x == k).unwrap();
            let behind_fresh = now[..pos].iter().any(|x| !old_side_out(stamps[*x]));
            let v = Violation::new(
                PROP,
                "alpha.window",
                site,
                if behind_fresh { "stale-event-behind-fresh-front" } else { "stale-event-at-front" },
                format!("after process_event(e{i} ts {ts}) clock reads {reads:?} window {d} ms: retained e{k} ts {} lies before the window; retained {now:?}", stamps[*k]),
                i,
            );
            if !obs.is_known(&v) {
                return Err(v);
            }
            prev = now.iter().map(|k| (*k, stamps[*k])).collect();
            continue;
        }
        let mut q: Vec<usize> = prev.iter().filter(|p| surely_in(p.1)).map(|p| p.0).collect();
        if surely_in(ts) {
            q.push(i);
        }
        let nowset: BTreeSet<usize> = now.iter().cloned().collect();
        let missing: Vec<usize> = q.iter().cloned().filter(|k| !nowset.contains(k)).collect();
        // retention cap: the node applies it to the buffer as it stands when the event is added
        // (stale events not yet evicted included); up to `over` oldest events may go, oldest by
        // arrival or by timestamp
        let mut all: Vec<usize> = prev.iter().map(|p| p.0).collect();
        all.push(i);
        let over = all.len().saturating_sub(t.cap);
        if over > 0 {
            obs.count("probe.cap_eviction");
        }
        let by_arrival = missing.iter().all(|k| all[..over].contains(k));
        let max_missing = missing.iter().map(|k| stamps[*k]).max();
        let min_kept = now.iter().map(|k| stamps[*k]).min();
        let by_ts = missing.len() <= over
            && match (max_missing, min_kept) {
                (Some(a), Some(b)) => a <= b,
                _ => true,
            };
        if !missing.is_empty() && !(by_arrival || by_ts) {
            let v = Violation::new(
                PROP,
                "alpha.window",
                site,
                if missing.contains(&i) { "accepted-event-not-retained" } else { "in-window-event-dropped" },
                format!("after process_event(e{i} ts {ts}) clock reads {reads:?} window {d} ms cap {}: events {missing:?} are inside the window at every instant shown but were dropped (the cap allows dropping the {over} oldest); retained {now:?}", t.cap),
                i,
            );
            if !obs.is_known(&v) {
                return Err(v);
            }
        }
        if now.len() > t.cap {
            return Err(Violation::new(PROP, "alpha.window", site, "buffer-over-cap", format!("buffer holds {} events, cap {}", now.len(), t.cap), i));
        }
        // nothing foreign, nothing twice
        let mut uniq = BTreeSet::new();
        for k in &now {
            if !uniq.insert(*k) || !(prev.iter().any(|p| p.0 == *k) || *k == i) {
                return Err(Violation::new(PROP, "alpha.window", site, "buffer-holds-foreign-or-duplicate", format!("buffer {now:?} after e{i}"), i));
            }
        }
        if node.event_count() != now.len() {
            return Err(Violation::new(PROP, "agg.fold", site, "event-count-differs", format!("event_count() {} but get_events() has {}", node.event_count(), now.len()), i));
        }
        prev = now.iter().map(|k| (*k, stamps[*k])).collect();
    }
    clock::uninstall();
    Ok(())
}

impl World for WindowWorld {
    type Trace = WinTrace;
    fn name(&self) -> &'static str {
        "window"
    }
    fn info(&self, _prop: &str) -> WorldInfo {
        WorldInfo {
            level: "exploration",
            rule: "<=12 events, stamps from a dense 0..40 ms domain (Alpha kinds: offsets around the simulated wall clock), \
                   delivered in order / reversed / shuffled / in bursts by SimNet; numeric (integer and integral float), \
                   non-numeric and missing fields; window 1,2,3,5,10 ms; caps 1,2,3,100; six sub-workloads: \
                   TimeWindow::record, WindowManager (tumbling), WindowedStream (tumbling), StreamAlphaNode sliding / \
                   tumbling / no window under SimClock (advance, stall, tick between the node's two reads, step back). \
                   Non-trivial iff >=3 events, some arrival out of stamp order or a clock fault, and >=2 distinct windows \
                   or an eviction; distinct = fingerprint of the whole trace"
                .into(),
            real: vec!["TimeWindow", "WindowManager", "WindowedStream", "StreamAlphaNode", "Aggregator", "operators::{Count,Sum,Average,Min,Max}", "StreamEvent"],
            stub: vec!["event sources", "SimNet (reorder/burst/duplicate)", "SimClock (wall ms; StreamAlphaNode only)", "hash seed"],
            assumptions: vec![
                "WindowedStream is driven in tumbling mode only (the mode the placement sentence is about)".into(),
                "'oldest-first' under the retention cap is accepted by arrival order or by timestamp".into(),
                "StreamAlphaNode: acceptance and retention are three-valued over the instants the clock showed during the call; a stamp ahead of the clock after a clock step-back is neither demanded nor forbidden".into(),
                "four runs in five: field values are integral, sums are exact in any order and aggregates are compared by equality; the others hold decimals and mixed magnitudes, and a sum or average is accepted iff it lies within 1e-9 x (sum of the magnitudes folded) of the in-order fold".into(),
            ],
            hang_is_a_verdict: true,
            required_probes: vec![
                "fault.reordered_arrival",
                "fault.clock_step_back",
                "fault.clock_stall",
                "fault.clock_ticked_between_reads",
                "probe.boundary_either",
                "probe.cap_eviction",
                "probe.record_evicted_by_age",
                "probe.late_event_for_an_older_window",
                "probe.stamp_exactly_on_window_start",
                "probe.stamp_exactly_on_window_boundary",
                "probe.tumbling_window_rolled_over",
                "probe.aggregate_skips_non_numeric",
                "probe.batch_with_several_windows",
                "probe.window_of_a_second_or_more",
                "probe.text_field_that_looks_numeric",
                "probe.stream_of_more_than_1024_events",
                "probe.timestamps_beyond_2_to_the_31",
                "probe.window_holding_inexact_values",
            ],
            quick_runs: 1_500_000,
            thorough_runs: 40_000_000,
        }
    }

    fn generate(&self, _prop: &str, _tier: Tier, rng: &mut Rng) -> WinTrace {
        let hash_seed = rng.next_u64();
        let kind = *rng.pick(&[Kind::Record, Kind::Record, Kind::Manager, Kind::Manager, Kind::Batch, Kind::AlphaSliding, Kind::AlphaSliding, Kind::AlphaTumbling, Kind::AlphaTumbling, Kind::AlphaNoWindow]);
        let duration_ms = *rng.pick(&[1u64, 2, 3, 5, 10]);
        let cap = *rng.pick(&[1usize, 2, 3, 100, 100, 100]);
        let max_windows = *rng.pick(&[1usize, 2, 3, 100, 100]);
        // one run in 400: a long stream (1030-1150 events, no effective cap); one in 100: a middling one (40-120)
        let long = rng.chance(1, 400);
        let middling = !long && rng.chance(1, 100);
        let n = if long { 1030 + rng.usize(120) } else if middling { 40 + rng.usize(80) } else { 1 + rng.usize(12) };
        let cap = if long { 100_000 } else { cap };
        let alpha = matches!(kind, Kind::AlphaSliding | Kind::AlphaTumbling | Kind::AlphaNoWindow);
        let ts_max = *rng.pick(&[6i64, 15, 40]);
        let field = |rng: &mut Rng| match rng.usize(8) {
            0 => {
                if rng.chance(1, 2) {
                    Field::Text
                } else {
                    Field::NumText(rng.range(-3, 9))
                }
            }
            1 => Field::Missing,
            2 | 3 => Field::Num(rng.range(-3, 9)),
            _ => Field::Int(rng.range(-3, 9)),
        };
        let mut events: Vec<Ev> = Vec::new();
        if alpha {
            let clock_mode = rng.usize(4);
            for _ in 0..n {
                events.push(Ev {
                    ts: rng.range(-(duration_ms as i64) - 2, 2),
                    field: field(rng),
                    clock_adv: match clock_mode {
                        0 => rng.range(1, 3),
                        1 => *rng.pick(&[0i64, 0, 1, 2]),
                        2 => *rng.pick(&[-3i64, -1, 0, 1, 2, 5, 11]),
                        _ => *rng.pick(&[0i64, 1]),
                    },
                    wrong_source: rng.chance(1, 12),
                    wrong_type: rng.chance(1, 12),
                    via_add: false,
                });
            }
        } else {
            // sources emit in stamp order; SimNet delays
            let mut msgs: Vec<(i64, usize, i64)> = Vec::new();
            let net_mode = rng.usize(5); // 0 in order, 1 jitter, 2 heavy, 3 reversed, 4 burst of equal stamps
            let mut stamps: Vec<i64> = (0..n).map(|_| if net_mode == 4 && rng.chance(1, 2) { ts_max / 2 } else { rng.range(0, ts_max) }).collect();
            stamps.sort();
            for (k, ts) in stamps.iter().enumerate() {
                let delay = match net_mode {
                    0 | 4 => 0,
                    1 => rng.range(0, 3),
                    2 => rng.range(0, ts_max + 4),
                    _ => 2 * (ts_max - ts),
                };
                msgs.push((ts + delay, k, *ts));
            }
            msgs.sort();
            for (_, _, ts) in msgs {
                events.push(Ev { ts, field: field(rng), clock_adv: 0, wrong_source: false, wrong_type: false, via_add: false });
            }
        }
        let tick_pattern = if alpha && rng.chance(1, 3) { vec![*rng.pick(&[0u8, 1]), *rng.pick(&[0u8, 1, 2]), 0] } else { vec![] };
        // unit scale (swarm): the same history with windows of seconds or minutes instead of ms
        let scale = *rng.pick(&[1i64, 1, 1, 1, 1, 7, 1000, 60_000]);
        // at the larger scales one run in three makes the duration an odd number of milliseconds
        let duration_ms = duration_ms * scale as u64 + if scale >= 1000 && rng.chance(1, 3) { rng.below(1000) } else { 0 };
        for e in events.iter_mut() {
            e.ts *= scale;
            e.clock_adv *= scale;
        }
        // epoch offset (swarm; the Alpha kinds already live at the simulated clock's ~1.7e12): real streams carry
        // epoch milliseconds, and arithmetic that is fine near zero may truncate or wrap beyond 2^31, 2^32, 2^53
        if !alpha {
            let offset = *rng.pick(&[0i64, 0, 0, 1_700_000_000_000, (1 << 31) - 20, (1i64 << 32) - 20, 1i64 << 53]);
            for e in events.iter_mut() {
                e.ts += offset;
            }
        }
        // one run in five of the kinds whose aggregates are compared number by number: the numeric values are
        // decimals without an exact binary form and magnitudes that absorb small addends
        if matches!(kind, Kind::Record | Kind::Manager) && rng.chance(1, 5) {
            for e in events.iter_mut() {
                if matches!(e.field, Field::Int(_) | Field::Num(_)) && rng.chance(3, 4) {
                    e.field = Field::Frac(rng.below(8) as u8);
                }
            }
        }
        // one continuously sliding window in three is filled both ways: one event in five goes in through add_event
        if kind == Kind::Record && rng.chance(1, 3) {
            for e in events.iter_mut() {
                e.via_add = rng.chance(1, 5);
            }
        }
        // one continuously sliding window in 40 has a duration that means "no bound"
        let duration_ms = if matches!(kind, Kind::Record | Kind::AlphaSliding | Kind::Manager | Kind::Batch) && rng.chance(1, 40) { *rng.pick(&[u64::MAX, u64::MAX - 1]) } else { duration_ms };
        WinTrace { hash_seed, kind, duration_ms, cap, max_windows, events, tick_pattern }
    }

    fn hash_seed(&self, t: &WinTrace) -> u64 {
        t.hash_seed
    }

    fn run(&self, _prop: &str, t: &WinTrace, obs: &mut Obs) -> Result<(), Violation> {
        if t.duration_ms == 0 || t.cap == 0 || t.max_windows == 0 || CLOCK_BASE_MS % 30 != 0 {
            return Ok(()); // outside the property's configuration space (or a broken constant)
        }
        reset_aggregators();
        let alpha = matches!(t.kind, Kind::AlphaSliding | Kind::AlphaTumbling | Kind::AlphaNoWindow);
        let reordered = t.events.windows(2).any(|w| w[1].ts < w[0].ts);
        obs.faulty = if alpha { t.events.iter().any(|e| e.clock_adv <= 0) || !t.tick_pattern.is_empty() } else { reordered };
        let distinct_windows: BTreeSet<i64> = t.events.iter().map(|e| e.ts.div_euclid(i64::try_from(t.duration_ms).unwrap_or(i64::MAX))).collect();
        obs.nontrivial = t.events.len() >= 3 && obs.faulty && (distinct_windows.len() >= 2 || t.events.len() > t.cap);
        obs.fp_str(&format!("{:?}|{}|{}|{}|{:?}|{:?}", t.kind, t.duration_ms, t.cap, t.max_windows, t.events, t.tick_pattern));
        if !alpha && t.events.iter().any(|e| e.ts >= 1 << 31) {
            obs.count("probe.timestamps_beyond_2_to_the_31");
        }
        if t.events.len() > 1024 {
            obs.count("probe.stream_of_more_than_1024_events");
        }
        if t.duration_ms >= 1000 {
            obs.count("probe.window_of_a_second_or_more");
        }
        if t.events.iter().any(|e| matches!(e.field, Field::NumText(_))) {
            obs.count("probe.text_field_that_looks_numeric");
        }
        match t.kind {
            Kind::Record => run_record(t, obs),
            Kind::Manager => run_manager(t, obs),
            Kind::Batch => run_batch_stream(t, obs),
            _ => run_alpha(t, obs),
        }
    }

    fn shrink(&self, t: &WinTrace) -> Vec<WinTrace> {
        let mut out = Vec::new();
        for v in drop_chunks(&t.events) {
            out.push(WinTrace { events: v, ..t.clone() });
        }
        if !t.tick_pattern.is_empty() {
            out.push(WinTrace { tick_pattern: vec![], ..t.clone() });
        }
        for i in 0..t.events.len() {
            let e = &t.events[i];
            let mut push = |f: &dyn Fn(&mut Ev)| {
                let mut c = t.clone();
                f(&mut c.events[i]);
                if c.events[i] != *e {
                    out.push(c);
                }
            };
            push(&|x| x.field = Field::Int(1));
            push(&|x| x.wrong_source = false);
            push(&|x| x.wrong_type = false);
            push(&|x| x.clock_adv = 1);
            push(&|x| x.clock_adv = 0);
            push(&|x| x.ts /= 2);
            push(&|x| x.ts -= x.ts.signum());
        }
        if t.cap != 100 {
            out.push(WinTrace { cap: 100, ..t.clone() });
        }
        if t.max_windows != 100 {
            out.push(WinTrace { max_windows: 100, ..t.clone() });
        }
        if t.hash_seed != 1 {
            out.push(WinTrace { hash_seed: 1, ..t.clone() });
        }
        // the whole history closer to zero (by whole windows, so that the alignment stays)
        if !matches!(t.kind, Kind::AlphaSliding | Kind::AlphaTumbling | Kind::AlphaNoWindow) {
            if let Some(m) = t.events.iter().map(|e| e.ts).min() {
                let d = i64::try_from(t.duration_ms.max(1)).unwrap_or(i64::MAX);
                for off in [(1i64 << 31) / d * d, m / 2 / d * d, m / d * d] { // inserted at the front one by one: the largest step ends up first
                    if off > 0 && off <= m {
                        let mut c = t.clone();
                        for e in c.events.iter_mut() {
                            e.ts -= off;
                        }
                        out.insert(0, c);
                    }
                }
            }
        }
        // the whole history in a smaller unit
        for k in [60_000i64, 1000, 7] {
            if t.duration_ms < u64::MAX - 1 && t.duration_ms as i64 % k == 0 && t.duration_ms as i64 / k >= 1 && t.events.iter().all(|e| e.ts % k == 0 && e.clock_adv % k == 0) {
                let mut c = t.clone();
                c.duration_ms /= k as u64;
                for e in c.events.iter_mut() {
                    e.ts /= k;
                    e.clock_adv /= k;
                }
                out.insert(0, c);
            }
        }
        out
    }
}
