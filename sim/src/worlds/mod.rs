pub mod join;
pub mod watermark;
pub mod window;
pub mod store;
pub mod agenda;
pub mod rete;
pub mod fwd;
pub mod bwd;
