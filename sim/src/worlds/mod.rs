pub mod join;
