//! World `join` (C14): `StreamJoinNode` (directly or through `StreamJoinManager`) fed by two
//! sources whose arrival interleaving, and the watermark ticks between arrivals, are chosen by
//! the seeded scheduler. Oracle: the reference inner join over the two sequences.

use crate::core::rng::Rng;
use crate::core::{drop_chunks, Obs, Tier, Violation, World, WorldInfo};
use rust_rule_engine::rete::stream_join_node::{JoinStrategy, JoinType, JoinedEvent, StreamJoinNode};
use rust_rule_engine::streaming::event::StreamEvent;
use rust_rule_engine::streaming::join_manager::StreamJoinManager;
use rust_rule_engine::types::Value;
use serde::{Deserialize, Serialize};
use std::collections::{BTreeMap, BTreeSet, HashMap};
use std::sync::{Arc, Mutex};
use std::time::Duration;

const PROP: &str = "C14";

#[derive(Clone, Debug, Serialize, Deserialize, PartialEq)]
pub struct Ev {
    pub key: Option<u8>,
    pub ts: u64,
    pub payload: i64,
}

#[derive(Clone, Copy, Debug, Serialize, Deserialize, PartialEq)]
pub enum Cond {
    Always,
    PayloadLe,
    PayloadEq,
}

#[derive(Clone, Copy, Debug, Serialize, Deserialize, PartialEq)]
pub enum Step {
    /// deliver the next event of the left source
    L,
    /// deliver the next event of the right source
    R,
    /// watermark tick
    Wm(i64),
}

#[derive(Clone, Debug, Serialize, Deserialize)]
pub struct JoinTrace {
    pub hash_seed: u64,
    pub window_secs: u64,
    /// fraction of a second added to the configured window (the join compares whole seconds, and the
    /// stamps are whole seconds, so the reference join is the same)
    #[serde(default)]
    pub window_frac_ms: u64,
    pub cond: Cond,
    pub via_manager: bool,
    pub left: Vec<Ev>,
    pub right: Vec<Ev>,
    pub schedule: Vec<Step>,
    /// further merges (true = left) of the same two sequences, run without watermark ticks
    pub alt_merges: Vec<Vec<bool>>,
    /// left event i and right event i carry the same id
    #[serde(default)]
    pub shared_ids: bool,
    /// one stream uses an id again for a later event with another stamp (a client-chosen id, round 20): the events of
    /// a side whose stamp no earlier event of that side carries are all called "<side>x"
    #[serde(default)]
    pub reused_ids: bool,
}

pub struct JoinWorld;

/// the window as the library gets it; `window_secs == u64::MAX` stands for `Duration::MAX` ("no bound")
fn win_dur(t: &JoinTrace) -> Duration {
    if t.window_secs == u64::MAX {
        Duration::MAX
    } else {
        Duration::from_millis(t.window_secs.saturating_mul(1000).saturating_add(t.window_frac_ms))
    }
}

thread_local! {
    /// the two streams label their events alike (JoinTrace::shared_ids): left event i and right event i carry
    /// the same id — an order number, a correlation id — and often the same stamp
    static SHARED_IDS: std::cell::Cell<bool> = const { std::cell::Cell::new(false) };
    /// JoinTrace::reused_ids
    static REUSED_IDS: std::cell::Cell<bool> = const { std::cell::Cell::new(false) };
}

fn mk_event(side: &str, idx: usize, all: &[Ev]) -> StreamEvent {
    let e = &all[idx];
    let mut data = HashMap::new();
    if let Some(k) = e.key {
        data.insert("k".to_string(), Value::String(format!("key{k}")));
    }
    data.insert("v".to_string(), Value::Integer(e.payload));
    let mut ev = StreamEvent::with_timestamp("E", data, side, e.ts);
    // the id would otherwise derive from the real nanosecond clock
    ev.id = if SHARED_IDS.with(|s| s.get()) { format!("ev{idx}") } else { format!("{side}{idx}") };
    if REUSED_IDS.with(|s| s.get()) {
        // the oracle tells the events apart by a data field of its own; (id, stamp) stays unique within a side
        ev.data.insert("i".to_string(), Value::Integer(idx as i64));
        if !all[..idx].iter().any(|o| o.ts == e.ts) {
            ev.id = format!("{side}x");
        }
    }
    ev
}

fn event_index(e: &StreamEvent, side: &str) -> Option<usize> {
    if REUSED_IDS.with(|s| s.get()) {
        let prefix = if SHARED_IDS.with(|s| s.get()) { "ev" } else { side };
        if !(e.id.starts_with(prefix) || e.id == format!("{side}x")) {
            return None;
        }
        return match e.data.get("i") {
            Some(Value::Integer(i)) if *i >= 0 => Some(*i as usize),
            _ => None,
        };
    }
    parse_id(&e.id, side)
}

fn payload(e: &StreamEvent) -> i64 {
    match e.data.get("v") {
        Some(Value::Integer(i)) => *i,
        _ => 0,
    }
}

fn build_node(t: &JoinTrace) -> StreamJoinNode {
    let cond = t.cond;
    StreamJoinNode::new(
        "left".to_string(),
        "right".to_string(),
        JoinType::Inner,
        JoinStrategy::TimeWindow {
            duration: win_dur(t),
        },
        Box::new(|e: &StreamEvent| match e.data.get("k") {
            Some(Value::String(s)) => Some(s.clone()),
            _ => None,
        }),
        Box::new(|e: &StreamEvent| match e.data.get("k") {
            Some(Value::String(s)) => Some(s.clone()),
            _ => None,
        }),
        Box::new(move |l: &StreamEvent, r: &StreamEvent| match cond {
            Cond::Always => true,
            Cond::PayloadLe => payload(l) <= payload(r),
            Cond::PayloadEq => payload(l) == payload(r),
        }),
    )
}

/// the same join with the two streams swapped (its left stream is "right")
fn mirror_node(t: &JoinTrace) -> StreamJoinNode {
    let cond = t.cond;
    StreamJoinNode::new(
        "right".to_string(),
        "left".to_string(),
        JoinType::Inner,
        JoinStrategy::TimeWindow { duration: win_dur(t) },
        Box::new(|e: &StreamEvent| match e.data.get("k") {
            Some(Value::String(s)) => Some(s.clone()),
            _ => None,
        }),
        Box::new(|e: &StreamEvent| match e.data.get("k") {
            Some(Value::String(s)) => Some(s.clone()),
            _ => None,
        }),
        // its "left" argument is an event of the right stream
        Box::new(move |r: &StreamEvent, l: &StreamEvent| match cond {
            Cond::Always => true,
            Cond::PayloadLe => payload(l) <= payload(r),
            Cond::PayloadEq => payload(l) == payload(r),
        }),
    )
}

impl Sut {
    /// what the mirrored join emitted since the last call, as (left-stream event, right-stream event) ids
    fn take_mirror(&mut self) -> Vec<(String, String)> {
        match self {
            Sut::Managed(_, _, ms) => std::mem::take(&mut *ms.lock().unwrap())
                .into_iter()
                .filter_map(|je| match (je.left, je.right) {
                    (Some(r), Some(l)) => Some((l.id, r.id)),
                    _ => None,
                })
                .collect(),
            _ => Vec::new(),
        }
    }
}

fn cond_holds(c: Cond, l: &Ev, r: &Ev) -> bool {
    match c {
        Cond::Always => true,
        Cond::PayloadLe => l.payload <= r.payload,
        Cond::PayloadEq => l.payload == r.payload,
    }
}

/// reference join: indices (l, r)
fn reference(t: &JoinTrace) -> BTreeSet<(usize, usize)> {
    let mut p = BTreeSet::new();
    for (i, l) in t.left.iter().enumerate() {
        for (j, r) in t.right.iter().enumerate() {
            if l.key.is_some()
                && l.key == r.key
                && (l.ts as i64 - r.ts as i64).unsigned_abs() <= t.window_secs
                && cond_holds(t.cond, l, r)
            {
                p.insert((i, j));
            }
        }
    }
    p
}

enum Sut {
    Direct(StreamJoinNode),
    Managed(StreamJoinManager, Arc<Mutex<Vec<JoinedEvent>>>, Arc<Mutex<Vec<JoinedEvent>>>),
}

impl Sut {
    fn new(t: &JoinTrace) -> Sut {
        let node = build_node(t);
        if t.via_manager {
            let sink: Arc<Mutex<Vec<JoinedEvent>>> = Arc::new(Mutex::new(Vec::new()));
            let mirror_sink: Arc<Mutex<Vec<JoinedEvent>>> = Arc::new(Mutex::new(Vec::new()));
            let s2 = sink.clone();
            let mut m = StreamJoinManager::new();
            m.register_join(
                "j".to_string(),
                node,
                Box::new(move |je| s2.lock().unwrap().push(je)),
            );
            // a second join on the same two streams with the sides swapped: the manager has to route
            // every event to both, as left of one and right of the other
            let mirror = mirror_node(t);
            let s3 = mirror_sink.clone();
            m.register_join("mirror".to_string(), mirror, Box::new(move |je| s3.lock().unwrap().push(je)));
            Sut::Managed(m, sink, mirror_sink)
        } else {
            Sut::Direct(node)
        }
    }
    fn left(&mut self, e: StreamEvent) -> Vec<JoinedEvent> {
        match self {
            Sut::Direct(n) => n.process_left(e),
            Sut::Managed(m, sink, _) => {
                m.process_event(e);
                std::mem::take(&mut *sink.lock().unwrap())
            }
        }
    }
    fn right(&mut self, e: StreamEvent) -> Vec<JoinedEvent> {
        match self {
            Sut::Direct(n) => n.process_right(e),
            Sut::Managed(m, sink, _) => {
                m.process_event(e);
                std::mem::take(&mut *sink.lock().unwrap())
            }
        }
    }
    fn wm(&mut self, w: i64) -> Vec<JoinedEvent> {
        match self {
            Sut::Direct(n) => n.update_watermark(w),
            Sut::Managed(m, sink, _) => {
                m.update_watermark("left", w);
                std::mem::take(&mut *sink.lock().unwrap())
            }
        }
    }
}

fn parse_id(id: &str, side: &str) -> Option<usize> {
    let prefix = if SHARED_IDS.with(|s| s.get()) { "ev" } else { side };
    id.strip_prefix(prefix).and_then(|s| s.parse().ok())
}

struct Emitted {
    pairs: BTreeMap<(usize, usize), u32>,
}

fn collect(out: Vec<JoinedEvent>, em: &mut Emitted, step: usize, site: &str) -> Result<(), Violation> {
    for je in out {
        match (&je.left, &je.right) {
            (Some(l), Some(r)) => {
                let li = event_index(l, "left");
                let ri = event_index(r, "right");
                match (li, ri) {
                    (Some(li), Some(ri)) => {
                        *em.pairs.entry((li, ri)).or_insert(0) += 1;
                    }
                    _ => {
                        return Err(Violation::new(
                            PROP,
                            "join.no-false",
                            site,
                            "pair-sides-swapped-or-foreign",
                            format!("emitted pair ({}, {}) is not a (left, right) pair of offered events", l.id, r.id),
                            step,
                        ))
                    }
                }
            }
            _ => {
                return Err(Violation::new(
                    PROP,
                    "join.no-false",
                    site,
                    "half-pair-from-inner-join",
                    "an inner join emitted a result with a missing side".to_string(),
                    step,
                ))
            }
        }
    }
    Ok(())
}

/// run one schedule; returns emitted multiset and the set of pairs that were *required*
fn run_schedule(
    t: &JoinTrace,
    schedule: &[Step],
    obs: Option<&mut Obs>,
) -> Result<(Emitted, BTreeSet<(usize, usize)>), Violation> {
    let site = if t.via_manager { "StreamJoinManager" } else { "StreamJoinNode" };
    let p = reference(t);
    let mut sut = Sut::new(t);
    let mut em = Emitted { pairs: BTreeMap::new() };
    // pairs emitted by the manager's second, mirrored join (manager runs only)
    let mut mirror: BTreeMap<(usize, usize), u32> = BTreeMap::new();
    let (mut li, mut ri) = (0usize, 0usize);
    // arrival step of each event, and watermark ticks as (step, w)
    let mut l_arr: Vec<usize> = Vec::new();
    let mut r_arr: Vec<usize> = Vec::new();
    let mut wms: Vec<(usize, i64)> = Vec::new();
    let mut last_wm: Option<i64> = None;
    let mut obs = obs;
    for (step, s) in schedule.iter().enumerate() {
        let out = match s {
            Step::L => {
                if li >= t.left.len() {
                    continue;
                }
                let e = mk_event("left", li, &t.left);
                if let (Some(o), Some(w)) = (obs.as_deref_mut(), last_wm) {
                    if (t.left[li].ts as i64) < w {
                        o.count("fault.late_arrival_below_watermark");
                    }
                }
                l_arr.push(step);
                li += 1;
                sut.left(e)
            }
            Step::R => {
                if ri >= t.right.len() {
                    continue;
                }
                let e = mk_event("right", ri, &t.right);
                if let (Some(o), Some(w)) = (obs.as_deref_mut(), last_wm) {
                    if (t.right[ri].ts as i64) < w {
                        o.count("fault.late_arrival_below_watermark");
                    }
                }
                r_arr.push(step);
                ri += 1;
                sut.right(e)
            }
            Step::Wm(w) => {
                if let Some(o) = obs.as_deref_mut() {
                    o.count("fault.watermark_tick");
                    if let Some(prev) = last_wm {
                        if *w < prev {
                            o.count("fault.watermark_regress");
                        }
                    }
                }
                last_wm = Some(*w);
                wms.push((step, *w));
                sut.wm(*w)
            }
        };
        collect(out, &mut em, step, site)?;
        for (lid, rid) in sut.take_mirror() {
            if let (Some(a), Some(b)) = (parse_id(&lid, "left"), parse_id(&rid, "right")) {
                *mirror.entry((a, b)).or_insert(0) += 1;
            } else {
                return Err(Violation::new(PROP, "join.no-false", "StreamJoinManager (second join, sides swapped)", "pair-sides-swapped-or-foreign", format!("the mirrored join emitted ({lid}, {rid})"), step));
            }
        }
        // no-false and once are prefix-closed: check after every step
        for ((l, r), n) in &em.pairs {
            if !p.contains(&(*l, *r)) {
                let (le, re) = (&t.left[*l], &t.right[*r]);
                let sig = if le.key != re.key {
                    "keys-differ"
                } else if (le.ts as i64 - re.ts as i64).unsigned_abs() > t.window_secs {
                    "outside-window"
                } else {
                    "condition-false"
                };
                return Err(Violation::new(
                    PROP,
                    "join.no-false",
                    site,
                    sig,
                    format!("emitted (left{l}, right{r}) = ({le:?}, {re:?}) which is not in the reference join (window {})", t.window_secs),
                    step,
                ));
            }
            if *n > 1 {
                let sig = match s {
                    Step::Wm(_) => "duplicate-on-watermark",
                    _ => "duplicate-on-arrival",
                };
                return Err(Violation::new(
                    PROP,
                    "join.once",
                    site,
                    sig,
                    format!("pair (left{l}, right{r}) emitted {n} times"),
                    step,
                ));
            }
        }
    }
    // required pairs: between the arrival of the first member and the arrival of the second no
    // watermark tick made the first one evictable (w - ts_first > W)
    let mut required = BTreeSet::new();
    for (l, r) in &p {
        if *l >= l_arr.len() || *r >= r_arr.len() {
            continue; // never delivered (schedule shorter than the sequences)
        }
        let (la, ra) = (l_arr[*l], r_arr[*r]);
        let (first_arr, second_arr, first_ts) = if la < ra {
            (la, ra, t.left[*l].ts as i64)
        } else {
            (ra, la, t.right[*r].ts as i64)
        };
        let evictable = wms
            .iter()
            .any(|(st, w)| *st > first_arr && *st < second_arr && *w - first_ts > i64::try_from(t.window_secs).unwrap_or(i64::MAX));
        if !evictable {
            required.insert((*l, *r));
        } else if let Some(o) = obs.as_deref_mut() {
            o.count("probe.pair_first_member_evictable");
        }
    }
    let has_wm = !wms.is_empty();
    for pr in &required {
        if !em.pairs.contains_key(pr) {
            let second_is_left = l_arr[pr.0] > r_arr[pr.1];
            return Err(Violation::new(
                PROP,
                if has_wm { "join.required" } else { "join.exact" },
                site,
                if second_is_left { "missing-pair-left-arrived-second" } else { "missing-pair-right-arrived-second" },
                format!(
                    "pair (left{}, right{}) = ({:?}, {:?}) is in the reference join and nothing could have evicted its first member, but it was never emitted",
                    pr.0, pr.1, t.left[pr.0], t.right[pr.1]
                ),
                schedule.len(),
            ));
        }
    }
    // the mirrored join of the manager must deliver the same pairs (it sees the same arrivals and ticks)
    if t.via_manager {
        let msite = "StreamJoinManager (second join, sides swapped)";
        for ((l, r), n) in &mirror {
            if !p.contains(&(*l, *r)) {
                return Err(Violation::new(PROP, "join.no-false", msite, "mirrored-join-false-pair", format!("the mirrored join emitted (left{l}, right{r}), which is not in the reference join"), schedule.len()));
            }
            if *n > 1 {
                return Err(Violation::new(PROP, "join.once", msite, "mirrored-join-duplicate", format!("the mirrored join emitted (left{l}, right{r}) {n} times"), schedule.len()));
            }
        }
        for pr in &required {
            if !mirror.contains_key(pr) {
                return Err(Violation::new(PROP, if has_wm { "join.required" } else { "join.exact" }, msite, "mirrored-join-missing-pair", format!("the manager's second join (sides swapped) never emitted (left{}, right{}), which is in the reference join and could not have been evicted", pr.0, pr.1), schedule.len()));
            }
        }
        if let Some(o) = obs.as_deref_mut() {
            o.count("probe.manager_with_two_joins");
        }
    }
    Ok((em, required))
}

impl World for JoinWorld {
    type Trace = JoinTrace;
    fn name(&self) -> &'static str {
        "join"
    }
    fn info(&self, _prop: &str) -> WorldInfo {
        WorldInfo {
            level: "exploration",
            rule: "two event sequences (<=4+4, 1..3 keys, keyless events, stamps 0..12, window 0..3 in the unit the \
                   node documents) merged by the seeded scheduler with optional watermark ticks (monotone, or \
                   regressing as a fault); a run is non-trivial iff the reference join is non-empty and the merge \
                   really interleaves the two sources; distinct = distinct fingerprints of (sequences, merge, ticks, \
                   emitted multiset)"
                .into(),
            real: vec!["StreamJoinNode", "StreamJoinManager (half of the runs; with a second join on the same streams, sides swapped)", "StreamEvent"],
            stub: vec!["two event sources", "SimNet merge scheduler", "watermark ticker", "hash seed (getrandom seam)"],
            assumptions: vec![
                "window compared in the unit the implementation documents (duration.as_secs() against raw stamps)".into(),
                "event ids are assigned by the harness (the library derives them from the real clock)".into(),
                "a pair is required only if no watermark tick between the arrivals of its two members made the first one evictable".into(),
            ],
            hang_is_a_verdict: true,
            required_probes: vec![
                "fault.watermark_tick",
                "fault.watermark_regress",
                "fault.late_arrival_below_watermark",
                "probe.pair_first_member_evictable",
                "probe.schedule_free_compared",
                "probe.manager_with_two_joins",
            ],
            quick_runs: 1_500_000,
            thorough_runs: 40_000_000,
        }
    }

    fn generate(&self, _prop: &str, _tier: Tier, rng: &mut Rng) -> JoinTrace {
        let hash_seed = rng.next_u64();
        let nkeys = 1 + rng.usize(3) as u8;
        let window_secs = rng.below(4);
        let ts_max = *rng.pick(&[3u64, 6, 12]);
        let cond = *rng.pick(&[Cond::Always, Cond::Always, Cond::PayloadLe, Cond::PayloadEq]);
        let keyless_pct = *rng.pick(&[0u64, 0, 15, 30]);
        // one run in fifty: 8-32 events a side instead of 0-4; one in a hundred thousand: 520-600 a side
        let size_mode = if rng.chance(1, 100_000) { 2 } else if rng.chance(1, 50) { 1 } else { 0 };
        let gen_side = |rng: &mut Rng| -> Vec<Ev> {
            let n = match size_mode {
                2 => 520 + rng.usize(80),
                1 => 8 + rng.usize(25),
                _ => rng.usize(5),
            };
            (0..n)
                .map(|_| Ev {
                    key: if rng.chance(keyless_pct, 100) { None } else { Some(rng.below(nkeys as u64) as u8) },
                    ts: rng.below(ts_max + 1),
                    payload: rng.range(0, 2),
                })
                .collect()
        };
        let left = gen_side(rng);
        let right = gen_side(rng);
        let merge = |rng: &mut Rng| -> Vec<bool> {
            let mut m: Vec<bool> = std::iter::repeat(true)
                .take(left.len())
                .chain(std::iter::repeat(false).take(right.len()))
                .collect();
            rng.shuffle(&mut m);
            m
        };
        let base = merge(rng);
        let wm_mode = rng.usize(4); // 0: none, 1: sparse monotone, 2: dense monotone, 3: with regressions
        let mut schedule = Vec::new();
        let mut wm: i64 = 0;
        for is_left in &base {
            let p = match wm_mode {
                0 => 0,
                1 => 20,
                _ => 50,
            };
            if rng.chance(p, 100) {
                if wm_mode == 3 && rng.chance(1, 3) {
                    wm -= rng.range(1, 6);
                } else {
                    wm += rng.range(0, 5);
                }
                schedule.push(Step::Wm(wm));
            }
            schedule.push(if *is_left { Step::L } else { Step::R });
        }
        if wm_mode != 0 && rng.chance(1, 2) {
            wm += rng.range(0, 8);
            schedule.push(Step::Wm(wm));
        }
        let alt_merges = (0..3).map(|_| merge(rng)).collect();
        // unit scale (swarm): the same history in seconds, minutes or hours
        let scale = *rng.pick(&[1u64, 1, 1, 1, 60, 3600]);
        let window_secs = window_secs * scale;
        // one run in 40: a window that means "no bound" (Duration::MAX) — every pair of equal keys joins
        let window_secs = if rng.chance(1, 40) { u64::MAX } else { window_secs };
        // epoch offset (swarm): stamps are epoch seconds in real use (~1.7e9), close to 2^31; also 2^32 and beyond
        let offset = *rng.pick(&[0u64, 0, 0, 1_700_000_000, (1 << 31) - 5, (1u64 << 32) - 5, 1u64 << 40]);
        let scale_ev = |v: Vec<Ev>| -> Vec<Ev> { v.into_iter().map(|e| Ev { ts: e.ts * scale + offset, ..e }).collect() };
        let (left, right) = (scale_ev(left), scale_ev(right));
        let schedule: Vec<Step> = schedule.into_iter().map(|s| if let Step::Wm(w) = s { Step::Wm(w * scale as i64 + offset as i64) } else { s }).collect();
        JoinTrace {
            hash_seed,
            window_secs,
            window_frac_ms: *rng.pick(&[0u64, 0, 0, 500, 999]),
            cond,
            via_manager: rng.chance(1, 2),
            left,
            right,
            schedule,
            alt_merges,
            shared_ids: rng.chance(1, 4),
            reused_ids: rng.chance(1, 4),
        }
    }

    fn hash_seed(&self, t: &JoinTrace) -> u64 {
        t.hash_seed
    }

    fn run(&self, _prop: &str, t: &JoinTrace, obs: &mut Obs) -> Result<(), Violation> {
        SHARED_IDS.with(|s| s.set(t.shared_ids));
        // (the manager's mirrored join reports ids only: reuse is for the node driven directly)
        let reused = t.reused_ids && !t.via_manager;
        REUSED_IDS.with(|s| s.set(reused));
        if reused {
            obs.count("probe.a_stream_uses_an_id_again_with_another_stamp");
        }
        if t.shared_ids {
            obs.count("probe.both_streams_label_their_events_alike");
        }
        let p = reference(t);
        let has_wm = t.schedule.iter().any(|s| matches!(s, Step::Wm(_)));
        obs.faulty = has_wm;
        let (em, required) = run_schedule(t, &t.schedule, Some(obs))?;
        // fingerprint
        obs.fp_str(&format!("{:?}|{:?}|{:?}|{}|{}|{:?}", t.left, t.right, t.schedule, t.window_secs, t.window_frac_ms, t.cond));
        if t.left.len() + t.right.len() > 1024 {
            obs.count("probe.more_than_1024_events");
        } else if t.left.len() + t.right.len() > 16 {
            obs.count("probe.more_than_16_events");
        }
        if t.left.iter().chain(&t.right).any(|e| e.ts >= 1 << 31) {
            obs.count("probe.timestamps_beyond_2_to_the_31");
        }
        if t.window_secs == u64::MAX {
            obs.count("probe.window_that_means_unbounded");
        }
        if t.window_secs >= 60 {
            obs.count("probe.window_of_a_minute_or_more");
        }
        if t.window_frac_ms != 0 {
            obs.count("probe.window_with_a_fraction_of_a_second");
        }
        obs.fp_str(&format!("{:?}", em.pairs));
        let kinds: Vec<bool> = t
            .schedule
            .iter()
            .filter_map(|s| match s {
                Step::L => Some(true),
                Step::R => Some(false),
                _ => None,
            })
            .collect();
        let switches = kinds.windows(2).filter(|w| w[0] != w[1]).count();
        obs.nontrivial = !p.is_empty() && switches >= 2;
        if required.len() < p.len() {
            obs.count("probe.run_with_possible_eviction");
        } else if !p.is_empty() {
            obs.count("probe.run_eviction_free_nonempty_join");
        }
        // schedule-free: other merges of the same sequences, no ticks, must give exactly P once each
        let site = if t.via_manager { "StreamJoinManager" } else { "StreamJoinNode" };
        for (k, m) in t.alt_merges.iter().enumerate() {
            let sched: Vec<Step> = m.iter().map(|b| if *b { Step::L } else { Step::R }).collect();
            let (em2, _) = run_schedule(t, &sched, None)?;
            let got: BTreeSet<(usize, usize)> = em2.pairs.keys().cloned().collect();
            let delivered_l = m.iter().filter(|b| **b).count().min(t.left.len());
            let delivered_r = m.iter().filter(|b| !**b).count().min(t.right.len());
            let expect: BTreeSet<(usize, usize)> =
                p.iter().filter(|(l, r)| *l < delivered_l && *r < delivered_r).cloned().collect();
            if got != expect {
                return Err(Violation::new(
                    PROP,
                    "join.schedule-free",
                    site,
                    "result-depends-on-merge",
                    format!("merge #{k} {m:?} emitted {got:?}, reference join is {expect:?}"),
                    t.schedule.len() + k,
                ));
            }
            obs.count("probe.schedule_free_compared");
        }
        Ok(())
    }

    fn shrink(&self, t: &JoinTrace) -> Vec<JoinTrace> {
        let mut out = Vec::new();
        // drop alternative merges
        if !t.alt_merges.is_empty() {
            let mut c = t.clone();
            c.alt_merges.clear();
            out.push(c);
            for i in 0..t.alt_merges.len() {
                let mut c = t.clone();
                c.alt_merges = vec![t.alt_merges[i].clone()];
                if t.alt_merges.len() > 1 {
                    out.push(c);
                }
            }
        }
        // drop schedule steps (an L/R step dropped also drops the event it would have delivered)
        for i in 0..t.schedule.len() {
            let mut c = t.clone();
            match t.schedule[i] {
                Step::Wm(_) => {
                    c.schedule.remove(i);
                }
                Step::L => {
                    let nth = t.schedule[..i].iter().filter(|s| matches!(s, Step::L)).count();
                    if nth < c.left.len() {
                        c.left.remove(nth);
                    }
                    c.schedule.remove(i);
                    for m in c.alt_merges.iter_mut() {
                        if let Some(pos) = m.iter().position(|b| *b) {
                            m.remove(pos);
                        }
                    }
                }
                Step::R => {
                    let nth = t.schedule[..i].iter().filter(|s| matches!(s, Step::R)).count();
                    if nth < c.right.len() {
                        c.right.remove(nth);
                    }
                    c.schedule.remove(i);
                    for m in c.alt_merges.iter_mut() {
                        if let Some(pos) = m.iter().position(|b| !*b) {
                            m.remove(pos);
                        }
                    }
                }
            }
            out.push(c);
        }
        let _ = drop_chunks::<u8>;
        if t.window_frac_ms != 0 {
            let mut c = t.clone();
            c.window_frac_ms = 0;
            out.push(c);
        }
        // the whole history closer to zero
        if let Some(m) = t.left.iter().chain(&t.right).map(|e| e.ts).min() {
            for off in [1u64 << 31, m / 2, m] { // inserted at the front one by one: the largest step ends up first
                if off > 0 && off <= m {
                    let mut c = t.clone();
                    for e in c.left.iter_mut().chain(c.right.iter_mut()) {
                        e.ts -= off;
                    }
                    for s in c.schedule.iter_mut() {
                        if let Step::Wm(w) = s {
                            *w -= off as i64;
                        }
                    }
                    out.insert(0, c);
                }
            }
        }
        // the whole history in a smaller unit
        for k in [3600u64, 60] {
            let wms = |s: &Step| if let Step::Wm(w) = s { *w % k as i64 == 0 } else { true };
            if t.window_secs % k == 0 && t.left.iter().chain(&t.right).all(|e| e.ts % k == 0) && t.schedule.iter().all(wms) && (t.window_secs > 0 || t.left.iter().chain(&t.right).any(|e| e.ts > 0)) {
                let mut c = t.clone();
                c.window_secs /= k;
                for e in c.left.iter_mut().chain(c.right.iter_mut()) {
                    e.ts /= k;
                }
                for s in c.schedule.iter_mut() {
                    if let Step::Wm(w) = s {
                        *w /= k as i64;
                    }
                }
                out.insert(0, c);
            }
        }
        if t.via_manager {
            let mut c = t.clone();
            c.via_manager = false;
            out.push(c);
        }
        if t.cond != Cond::Always {
            let mut c = t.clone();
            c.cond = Cond::Always;
            out.push(c);
        }
        if t.window_secs > 0 {
            let mut c = t.clone();
            c.window_secs -= 1;
            out.push(c);
        }
        for side in 0..2 {
            let n = if side == 0 { t.left.len() } else { t.right.len() };
            for i in 0..n {
                let e = if side == 0 { &t.left[i] } else { &t.right[i] };
                let mut variants = Vec::new();
                if e.ts > 0 {
                    variants.push(Ev { ts: e.ts / 2, ..e.clone() });
                    variants.push(Ev { ts: e.ts - 1, ..e.clone() });
                }
                if e.payload != 0 {
                    variants.push(Ev { payload: 0, ..e.clone() });
                }
                if let Some(k) = e.key {
                    if k > 0 {
                        variants.push(Ev { key: Some(0), ..e.clone() });
                    }
                }
                for v in variants {
                    let mut c = t.clone();
                    if side == 0 {
                        c.left[i] = v;
                    } else {
                        c.right[i] = v;
                    }
                    out.push(c);
                }
            }
        }
        for i in 0..t.schedule.len() {
            if let Step::Wm(w) = t.schedule[i] {
                if w != 0 {
                    let mut c = t.clone();
                    c.schedule[i] = Step::Wm(w / 2);
                    out.push(c);
                    let mut c = t.clone();
                    c.schedule[i] = Step::Wm(w - w.signum());
                    out.push(c);
                }
            }
        }
        if t.hash_seed != 1 {
            let mut c = t.clone();
            c.hash_seed = 1;
            out.push(c);
        }
        out
    }
}
