//! World `fwd` (C02): `RustRuleEngine` over a history of execute calls, focus operations,
//! rule-base edits and fact edits, with the evaluation instant under the simulator's control:
//! `execute_at_time(t)` directly, `execute()` / `execute_with_callback()` through the Utc seam
//! (clock set forward, backward, exactly onto effective/expires instants, ticking on read).
//! Oracle: an executable reference scheduler written from the property's sentences that
//! predicts the whole fired sequence of every call; where the property is silent the model is
//! nondeterministic and carries the set of states still consistent with what was observed.

use crate::core::rng::Rng;
use crate::core::{budget, clock, drop_chunks, panic_text, Obs, Tier, Violation, World, WorldInfo};
use chrono::{DateTime, TimeZone, Utc};
use rust_rule_engine::engine::engine::{EngineConfig, RustRuleEngine};
use rust_rule_engine::engine::facts::Facts;
use rust_rule_engine::engine::knowledge_base::KnowledgeBase;
use rust_rule_engine::engine::rule::{Condition, ConditionGroup, Rule};
use rust_rule_engine::types::{ActionType, Operator, Value};
use serde::{Deserialize, Serialize};
use std::collections::{BTreeMap, BTreeSet, HashMap};

const PROP: &str = "C02";
const BASE_MS_NOW: i64 = 1_700_000_000_000;
/// 2300-01-01: beyond what a signed 64-bit count of nanoseconds since 1970 can hold (that ends in 2262)
const BASE_MS_2300: i64 = 10_413_792_000_000;

#[derive(Clone, Debug, Serialize, Deserialize, PartialEq)]
pub enum Cond {
    Atom { field: u8, op: u8, lit: i64 },
    And(Box<Cond>, Box<Cond>),
    Or(Box<Cond>, Box<Cond>),
    Not(Box<Cond>),
}

#[derive(Clone, Debug, Serialize, Deserialize, PartialEq)]
pub struct FRule {
    pub name_id: u32,
    pub salience: i32,
    pub enabled: bool,
    pub no_loop: bool,
    pub lock_on_active: bool,
    pub agenda_group: u8,
    pub activation_group: u8,
    /// lattice index of date_effective / date_expires
    pub effective: Option<u8>,
    pub expires: Option<u8>,
    pub cond: Cond,
    pub set: Option<(u8, i64)>,
    pub activate: Option<u8>,
    /// Some(0): the rule's first action fails (a Custom action nobody registered a handler for), before any
    /// other action ran; Some(1): its last action fails, after all the others ran. The execute call returns Err
    #[serde(default)]
    pub fail: Option<u8>,
}

#[derive(Clone, Debug, Serialize, Deserialize, PartialEq)]
pub enum FOp {
    /// execute_at_time at evaluation instant #e
    ExecAt(u8),
    /// execute() under the simulated Utc clock
    Exec,
    /// execute_with_callback() under the simulated Utc clock
    ExecCb,
    /// the wall clock is set to evaluation instant #e (forward or backward)
    ClockSet(u8),
    SetFocus(u8),
    PopFocus,
    ClearFocus,
    ActivateGroup(u8),
    ResetNoLoop,
    SetEnabled(u8, bool),
    AddRule(FRule),
    RemoveRule(u8),
    SetFact(u8, i64),
}

#[derive(Clone, Debug, Serialize, Deserialize)]
pub struct FwdTrace {
    pub hash_seed: u64,
    pub max_cycles: usize,
    pub rules: Vec<FRule>,
    pub facts: [i64; 3],
    pub ops: Vec<FOp>,
    pub tick_pattern: Vec<u8>,
    /// configuration swarm: (enable_stats, debug_mode, a timeout of an hour that can never expire)
    #[serde(default)]
    pub cfg: (bool, bool, bool),
    /// the date lattice is offset by this many milliseconds (0, 250 or 750): effective and expiry dates that
    /// are not on a whole second, evaluation instants in the same second on either side of them
    #[serde(default)]
    pub frac: u16,
    /// 1: the date lattice and every evaluation instant lie in the year 2300 instead of 2023
    #[serde(default)]
    pub epoch: u8,
    /// 1: rule, agenda-group and activation-group names that differ only in case, white space or punctuation
    #[serde(default)]
    pub names: u8,
}

pub struct FwdWorld;

thread_local! {
    /// the run's sub-second offset of the date lattice (FwdTrace::frac)
    static FRAC: std::cell::Cell<i64> = const { std::cell::Cell::new(0) };
    /// the run's epoch (FwdTrace::epoch) and naming style (FwdTrace::names)
    static EPOCH: std::cell::Cell<u8> = const { std::cell::Cell::new(0) };
    static NAMES: std::cell::Cell<u8> = const { std::cell::Cell::new(0) };
}
fn base_ms() -> i64 {
    if EPOCH.with(|e| e.get()) == 1 {
        BASE_MS_2300
    } else {
        BASE_MS_NOW
    }
}
fn lattice_ms(i: u8) -> i64 {
    base_ms() + (i as i64) * 1000 + FRAC.with(|f| f.get())
}
/// evaluation instants: the odd ones lie exactly on the lattice points, the even ones half a second before —
/// at a whole-second offset, that is; with a lattice offset of 750 ms an even instant falls in the same
/// wall-clock second as the lattice point after it
fn eval_ms(e: u8) -> i64 {
    base_ms() - 500 + (e as i64) * 500 + if e % 2 == 1 { FRAC.with(|f| f.get()) } else { 0 }
}
fn dt(ms: i64) -> DateTime<Utc> {
    Utc.timestamp_millis_opt(ms).single().expect("valid instant")
}
fn group(g: u8) -> String {
    match g {
        0 => "MAIN".to_string(),
        // naming style 1: a group whose name differs from MAIN only in case, and one with a blank in it
        n if NAMES.with(|x| x.get()) == 1 => ["main", "Main "][n as usize % 2].to_string(),
        n => format!("g{n}"),
    }
}
fn fname(f: u8) -> &'static str {
    ["F.x", "F.y", "F.z"][f as usize % 3]
}
fn rname(r: &FRule) -> String {
    // naming style 1: names that differ only in case, white space or punctuation, or are prefixes of one another
    const FAMILY: [&str; 8] = ["rule", "Rule", "rule ", "RULE", "rule.1", "rule1", "rule-1", "rule 1"];
    if NAMES.with(|n| n.get()) == 1 && (r.name_id as usize) < FAMILY.len() {
        FAMILY[r.name_id as usize].to_string()
    } else {
        format!("R{}", r.name_id)
    }
}
fn agroup(a: u8) -> String {
    if NAMES.with(|n| n.get()) == 1 {
        ["a", "A", "a "][a as usize % 3].to_string()
    } else {
        format!("a{a}")
    }
}

fn cond_to_group(c: &Cond) -> ConditionGroup {
    match c {
        Cond::Atom { field, op, lit } => {
            let o = match op % 6 {
                0 => Operator::Equal,
                1 => Operator::NotEqual,
                2 => Operator::LessThan,
                3 => Operator::LessThanOrEqual,
                4 => Operator::GreaterThan,
                _ => Operator::GreaterThanOrEqual,
            };
            ConditionGroup::single(Condition::new(fname(*field).to_string(), o, Value::Integer(*lit)))
        }
        Cond::And(a, b) => ConditionGroup::and(cond_to_group(a), cond_to_group(b)),
        Cond::Or(a, b) => ConditionGroup::or(cond_to_group(a), cond_to_group(b)),
        Cond::Not(a) => ConditionGroup::not(cond_to_group(a)),
    }
}

fn eval_cond(c: &Cond, f: &[i64; 3]) -> bool {
    match c {
        Cond::Atom { field, op, lit } => {
            let v = f[*field as usize % 3];
            match op % 6 {
                0 => v == *lit,
                1 => v != *lit,
                2 => v < *lit,
                3 => v <= *lit,
                4 => v > *lit,
                _ => v >= *lit,
            }
        }
        Cond::And(a, b) => eval_cond(a, f) && eval_cond(b, f),
        Cond::Or(a, b) => eval_cond(a, f) || eval_cond(b, f),
        Cond::Not(a) => !eval_cond(a, f),
    }
}

fn to_rule(r: &FRule) -> Rule {
    let boom = || ActionType::Custom { action_type: "boom".to_string(), params: HashMap::new() };
    let mut actions = Vec::new();
    if r.fail == Some(0) {
        actions.push(boom());
    }
    actions.push(ActionType::Append { field: "trace".to_string(), value: Value::String(rname(r)) });
    if let Some((f, v)) = r.set {
        actions.push(ActionType::Set { field: fname(f).to_string(), value: Value::Integer(v) });
    }
    if let Some(g) = r.activate {
        actions.push(ActionType::ActivateAgendaGroup { group: group(g) });
    }
    if r.fail.is_some_and(|k| k != 0) {
        actions.push(boom());
    }
    let mut rule = Rule::new(rname(r), cond_to_group(&r.cond), actions)
        .with_salience(r.salience)
        .with_no_loop(r.no_loop)
        .with_lock_on_active(r.lock_on_active);
    rule.enabled = r.enabled;
    if r.agenda_group > 0 {
        rule = rule.with_agenda_group(group(r.agenda_group));
    }
    if r.activation_group > 0 {
        rule = rule.with_activation_group(agroup(r.activation_group));
    }
    if let Some(e) = r.effective {
        rule = rule.with_date_effective(dt(lattice_ms(e)));
    }
    if let Some(e) = r.expires {
        rule = rule.with_date_expires(dt(lattice_ms(e)));
    }
    rule
}

// ------------------------------------------------------------------------------------ model

/// source of the model's nondeterministic choices; one bit per `either` point
struct Chooser {
    bits: u32,
    used: u32,
}
impl Chooser {
    fn choose(&mut self) -> bool {
        let b = (self.bits >> self.used.min(31)) & 1 == 1;
        self.used += 1;
        b
    }
}

#[derive(Clone, Debug, PartialEq)]
struct MState {
    rules: Vec<FRule>,
    facts: [i64; 3],
    stack: Vec<String>,
    active: String,
    lock_record: BTreeMap<String, BTreeSet<String>>,
    noloop_fired: BTreeSet<String>,
    wf_queue: Vec<String>,
    /// is `t == effective` inside / `t == expires` inside? decided the first time it matters
    eff_incl: Option<bool>,
    exp_incl: Option<bool>,
}

#[derive(Clone, Debug, PartialEq)]
struct Outcome {
    fired: Vec<String>,
    cycle_count: usize,
    rules_fired: usize,
    active: String,
    facts: [i64; 3],
    /// the call returned Err (an action failed); the counters are then unknown and left at 0
    failed: bool,
}

impl MState {
    fn focus(&mut self, g: &str) {
        self.stack.retain(|x| x != g);
        self.stack.push(g.to_string());
        self.active = g.to_string();
    }
    /// a client-visible activation of group g: lock-on-active rules of g may fire again
    fn set_focus_certain(&mut self, g: &str) {
        self.focus(g);
        self.lock_record.insert(g.to_string(), BTreeSet::new());
    }
    /// the group becomes (or stays) active through something the property does not call an
    /// activation for certain: the record may or may not be cleared
    fn maybe_clear(&mut self, g: &str, ch: &mut Chooser) {
        if self.lock_record.get(g).map_or(false, |r| !r.is_empty()) && ch.choose() {
            self.lock_record.insert(g.to_string(), BTreeSet::new());
        }
    }
    fn date_active(&mut self, r: &FRule, t: i64, ch: &mut Chooser) -> bool {
        if let Some(e) = r.effective {
            let e = lattice_ms(e);
            if t < e {
                return false;
            }
            if t == e {
                let incl = *self.eff_incl.get_or_insert_with(|| ch.choose());
                if !incl {
                    return false;
                }
            }
        }
        if let Some(e) = r.expires {
            let e = lattice_ms(e);
            if t > e {
                return false;
            }
            if t == e {
                let incl = *self.exp_incl.get_or_insert_with(|| ch.choose());
                if !incl {
                    return false;
                }
            }
        }
        true
    }
    fn sync_queue(&mut self, ch: &mut Chooser) {
        let q: Vec<String> = self.wf_queue.drain(..).collect();
        for g in q {
            self.focus(&g);
            self.maybe_clear(&g, ch);
        }
    }
    fn exec(&mut self, t: i64, max_cycles: usize, ch: &mut Chooser) -> Outcome {
        let mut fired = Vec::new();
        let mut cycle_count = 0;
        self.sync_queue(ch);
        for cycle in 0..max_cycles {
            cycle_count = cycle + 1;
            let mut any = false;
            let mut act_fired: BTreeSet<u8> = BTreeSet::new();
            let rules = self.rules.clone();
            for r in &rules {
                if !r.enabled {
                    continue;
                }
                let rg = group(r.agenda_group);
                if rg != self.active {
                    continue;
                }
                if !self.date_active(r, t, ch) {
                    continue;
                }
                let name = rname(r);
                if r.lock_on_active && self.lock_record.get(&rg).map_or(false, |s| s.contains(&name)) {
                    continue;
                }
                if r.activation_group > 0 && act_fired.contains(&r.activation_group) {
                    continue;
                }
                if r.no_loop && self.noloop_fired.contains(&name) {
                    continue;
                }
                if !eval_cond(&r.cond, &self.facts) {
                    continue;
                }
                if r.fail == Some(0) {
                    // the rule's first action fails: nothing of it happened. Whether the rule itself counts as
                    // fired for no-loop / lock-on-active the property does not say; everything that fired
                    // BEFORE it in this call certainly did
                    if ch.choose() {
                        if r.no_loop {
                            self.noloop_fired.insert(name.clone());
                        }
                        if r.lock_on_active {
                            self.lock_record.entry(rg).or_default().insert(name.clone());
                        }
                    }
                    return Outcome { rules_fired: 0, fired, cycle_count: 0, active: self.active.clone(), facts: self.facts, failed: true };
                }
                fired.push(name.clone());
                if let Some((f, v)) = r.set {
                    self.facts[f as usize % 3] = v;
                }
                if let Some(g) = r.activate {
                    let g = group(g);
                    self.wf_queue.push(g.clone());
                    self.set_focus_certain(&g);
                }
                if r.fail.is_some() {
                    // the last action failed, after all the others ran
                    if ch.choose() {
                        if r.no_loop {
                            self.noloop_fired.insert(name.clone());
                        }
                        if r.lock_on_active {
                            self.lock_record.entry(rg).or_default().insert(name.clone());
                        }
                    }
                    return Outcome { rules_fired: 0, fired, cycle_count: 0, active: self.active.clone(), facts: self.facts, failed: true };
                }
                any = true;
                if r.no_loop {
                    self.noloop_fired.insert(name.clone());
                }
                if r.lock_on_active {
                    self.lock_record.entry(rg).or_default().insert(name.clone());
                }
                if r.activation_group > 0 {
                    act_fired.insert(r.activation_group);
                }
            }
            if !any {
                break;
            }
            self.sync_queue(ch);
        }
        Outcome { rules_fired: fired.len(), fired, cycle_count, active: self.active.clone(), facts: self.facts, failed: false }
    }
    /// client operations other than the execute calls
    fn apply(&mut self, op: &FOp, ch: &mut Chooser) {
        match op {
            FOp::SetFocus(g) => self.set_focus_certain(&group(*g)),
            FOp::ActivateGroup(g) => {
                let g = group(*g);
                self.wf_queue.push(g.clone());
                self.set_focus_certain(&g);
            }
            FOp::PopFocus => {
                if self.stack.len() > 1 {
                    self.stack.pop();
                    self.active = self.stack.last().cloned().unwrap_or_else(|| "MAIN".to_string());
                    let a = self.active.clone();
                    self.maybe_clear(&a, ch);
                }
            }
            FOp::ClearFocus => {
                let was = self.active.clone();
                self.stack = vec!["MAIN".to_string()];
                self.active = "MAIN".to_string();
                if was != "MAIN" {
                    self.maybe_clear("MAIN", ch);
                }
            }
            FOp::ResetNoLoop => self.noloop_fired.clear(),
            FOp::SetEnabled(i, on) => {
                if !self.rules.is_empty() {
                    // index refers to insertion order, which the harness keeps in `order`
                }
                let _ = (i, on);
            }
            FOp::SetFact(f, v) => self.facts[*f as usize % 3] = *v,
            _ => {}
        }
    }
    fn add_rule(&mut self, r: &FRule, ch: &mut Chooser) {
        let name = rname(r);
        if self.rules.iter().any(|x| rname(x) == name) {
            return; // duplicate name: rejected without effect
        }
        // a rule that comes back under a name with no-loop history: is it the same rule?
        if self.noloop_fired.contains(&name) && ch.choose() {
            self.noloop_fired.remove(&name);
        }
        for rec in self.lock_record.values_mut() {
            if rec.contains(&name) && ch.choose() {
                rec.remove(&name);
            }
        }
        self.rules.push(r.clone());
        self.rules.sort_by_key(|x| std::cmp::Reverse(x.salience)); // stable
    }
}

/// all successors of `states` under `f` over every assignment of the either-bits it consumes
/// (depth-first over the tree of choice prefixes: how many bits a path consumes depends on the
/// earlier choices)
fn expand<R: Clone + PartialEq>(states: &[MState], f: &dyn Fn(&mut MState, &mut Chooser) -> R, too_many: &mut bool) -> Vec<(MState, R)> {
    let mut out: Vec<(MState, R)> = Vec::new();
    for s in states {
        // (bits, number of leading bits that are fixed)
        let mut work: Vec<(u32, u32)> = vec![(0, 0)];
        let mut runs = 0;
        while let Some((bits, fixed)) = work.pop() {
            runs += 1;
            if runs > 512 {
                *too_many = true;
                break;
            }
            let mut s1 = s.clone();
            let mut ch = Chooser { bits, used: 0 };
            let r1 = f(&mut s1, &mut ch);
            if ch.used > 10 {
                *too_many = true;
            }
            for i in fixed..ch.used.min(10) {
                work.push((bits | (1 << i), i + 1));
            }
            if !out.iter().any(|(a, b)| *a == s1 && *b == r1) {
                out.push((s1, r1));
            }
        }
    }
    out
}

fn viol(clause: &str, site: &str, sig: &str, msg: String, step: usize) -> Violation {
    Violation::new(PROP, clause, site, sig, msg, step)
}

/// name the sentence of the property that the observation contradicts (heuristic, for reporting)
fn classify(obs: &Outcome, pred: &Outcome, pre: &MState, t: i64) -> (&'static str, &'static str) {
    let mut o = obs.fired.clone();
    let mut p = pred.fired.clone();
    if o != p {
        o.sort();
        p.sort();
        if o == p {
            return ("order.salience-then-insertion", "same-rules-fired-in-another-order");
        }
        // a rule that fired more often than any admissible prediction allows
        for name in &obs.fired {
            let no = obs.fired.iter().filter(|x| *x == name).count();
            let np = pred.fired.iter().filter(|x| *x == name).count();
            if no > np {
                if let Some(r) = pre.rules.iter().find(|r| rname(r) == *name) {
                    if !r.enabled {
                        return ("gate.enabled", "disabled-rule-fired");
                    }
                    let before = r.effective.map_or(false, |e| t < lattice_ms(e));
                    let after = r.expires.map_or(false, |e| t > lattice_ms(e));
                    if before || after {
                        return ("gate.date-window", "rule-fired-outside-its-date-window");
                    }
                    let activated: Vec<String> = pre.rules.iter().filter_map(|x| x.activate.map(group)).collect();
                    if group(r.agenda_group) != pre.active && !activated.contains(&group(r.agenda_group)) && !pre.wf_queue.contains(&group(r.agenda_group)) {
                        return ("gate.agenda-group", "rule-outside-focused-group-fired");
                    }
                    if r.no_loop && (pre.noloop_fired.contains(name) || no > 1) {
                        return ("gate.no-loop", "no-loop-rule-fired-again");
                    }
                    if r.activation_group > 0 {
                        return ("gate.activation-group", "more-than-one-rule-of-activation-group-per-pass");
                    }
                    if r.lock_on_active {
                        return ("gate.lock-on-active", "lock-on-active-rule-fired-again-in-same-activation");
                    }
                    return ("gate.condition", "rule-fired-more-often-than-predicted");
                }
                return ("gate.enabled", "unknown-rule-fired");
            }
        }
        return ("gate.completeness", "eligible-rule-did-not-fire");
    }
    if obs.failed != pred.failed {
        return ("result.returns", "call-failed-or-succeeded-against-prediction");
    }
    if obs.cycle_count != pred.cycle_count || obs.rules_fired != pred.rules_fired {
        return ("result.counters", "cycle-or-fired-count-differs");
    }
    if obs.active != pred.active {
        return ("focus.active-group", "active-agenda-group-differs");
    }
    ("actions.facts", "facts-after-call-differ")
}

fn read_trace(facts: &Facts) -> Vec<String> {
    match facts.get("trace") {
        Some(Value::Array(a)) => a
            .iter()
            .map(|v| match v {
                Value::String(s) => s.clone(),
                other => format!("{other:?}"),
            })
            .collect(),
        _ => Vec::new(),
    }
}

fn read_facts(facts: &Facts) -> Option<[i64; 3]> {
    let g = |k: &str| match facts.get_nested(k) {
        Some(Value::Integer(i)) => Some(i),
        Some(Value::Number(n)) if n.fract() == 0.0 => Some(n as i64),
        _ => None,
    };
    Some([g("F.x")?, g("F.y")?, g("F.z")?])
}

impl World for FwdWorld {
    type Trace = FwdTrace;
    fn name(&self) -> &'static str {
        "fwd"
    }
    fn info(&self, _prop: &str) -> WorldInfo {
        WorldInfo {
            level: "exploration",
            rule: "1-8 rules (one run in 16: 21-48 mostly equal-salience rules) (salience from {-2..2, i32::MIN, i32::MAX} with frequent ties; independent coins for disabled, no-loop, \
                   lock-on-active, agenda group MAIN/g1/g2, activation group none/a1/a2, date_effective / date_expires on a 6-point \
                   lattice; typed-core conditions over 3 integer fields; actions: append own name to a trace array, optional \
                   assignment, optional ActivateAgendaGroup) and a history of 1-10 operations: execute_at_time at 13 instants on and \
                   between the lattice points, execute() and execute_with_callback() under the simulated Utc clock (set forward, \
                   backward, onto boundaries, ticking on read), set/pop/clear focus, activate_agenda_group, reset_no_loop_tracking, \
                   enable/disable, add/remove (incl. re-adding a removed name), fact edits; max_cycles 0,1,2,3,8. Non-trivial iff \
                   >=2 execute calls fired >=3 rules in total; distinct = fingerprint of the trace"
                .into(),
            real: vec!["RustRuleEngine (execute, execute_at_time, execute_with_callback)", "KnowledgeBase", "AgendaManager", "ActivationGroupManager", "WorkflowEngine (agenda activation queue)", "Facts", "Rule::is_active_at"],
            stub: vec!["SimClock (Utc seam for the two entry points without a time parameter)", "client", "hash seed"],
            assumptions: vec![
                "conditions and assignments stay in the typed core (integer fields, integer literals)".into(),
                "either-points (model nondeterministic, set of consistent states carried): t == effective, t == expires; a group re-exposed by pop/clear focus or re-focused by the engine's own end-of-pass / start-of-call queue drain counts as a new activation for lock-on-active or not; a rule removed and re-added under the same name keeps its no-loop / lock history or not".into(),
                "rules_evaluated is not judged".into(),
                "timeout is None (wall-clock timeout disabled)".into(),
            ],
            hang_is_a_verdict: true,
            required_probes: vec![
                "fault.clock_set_backward",
                "fault.clock_tick_on_read",
                "probe.instant_exactly_on_effective_or_expires",
                "probe.either_point_branched",
                "probe.equal_salience_pair_both_fired",
                "probe.activation_group_blocked_a_rule",
                "probe.lock_on_active_blocked_a_rule",
                "probe.no_loop_blocked_a_rule",
                "probe.agenda_group_action_switched_focus",
                "probe.date_window_blocked_a_rule",
                "probe.rule_re_added_under_old_name",
                "probe.execute_via_utc_seam",
                "probe.large_rule_set",
                "probe.execute_call_failed_in_an_action",
            ],
            quick_runs: 400_000,
            thorough_runs: 12_000_000,
        }
    }

    fn generate(&self, _prop: &str, _tier: Tier, rng: &mut Rng) -> FwdTrace {
        let hash_seed = rng.next_u64();
        let sal_pool: Vec<i32> = match rng.usize(3) {
            0 => vec![0, 0, 1],
            1 => vec![-2, -1, 0, 1, 2],
            _ => vec![i32::MIN, -1, 0, 0, 2, i32::MAX],
        };
        let groups_on = rng.chance(1, 2);
        let dates_on = rng.chance(1, 2);
        let act_on = rng.chance(1, 2);
        fn gen_cond(rng: &mut Rng, depth: usize) -> Cond {
            if depth >= 2 || rng.chance(1, 2) {
                // frequently-true atoms so that rules actually fire
                Cond::Atom { field: rng.below(3) as u8, op: rng.below(6) as u8, lit: rng.range(0, 3) }
            } else {
                match rng.usize(5) {
                    0 | 1 => Cond::And(Box::new(gen_cond(rng, depth + 1)), Box::new(gen_cond(rng, depth + 1))),
                    2 | 3 => Cond::Or(Box::new(gen_cond(rng, depth + 1)), Box::new(gen_cond(rng, depth + 1))),
                    _ => Cond::Not(Box::new(gen_cond(rng, depth + 1))),
                }
            }
        }
        let mut next_id = 0u32;
        let mut gen_rule = |rng: &mut Rng, name_id: u32| -> FRule {
            let eff = if dates_on && rng.chance(1, 3) { Some(rng.below(6) as u8) } else { None };
            let exp = if dates_on && rng.chance(1, 3) { Some(rng.below(6) as u8) } else { None };
            FRule {
                name_id,
                salience: *rng.pick(&sal_pool),
                enabled: !rng.chance(1, 8),
                no_loop: rng.chance(1, 3),
                lock_on_active: rng.chance(1, 5),
                agenda_group: if groups_on { *rng.pick(&[0u8, 0, 1, 2]) } else { 0 },
                activation_group: if act_on { *rng.pick(&[0u8, 0, 1, 1, 2]) } else { 0 },
                effective: eff,
                expires: exp,
                cond: gen_cond(rng, 0),
                set: if rng.chance(1, 2) { Some((rng.below(3) as u8, rng.range(0, 3))) } else { None },
                activate: if groups_on && rng.chance(1, 4) { Some(rng.below(3) as u8) } else { None },
                fail: None,
            }
        };
        // one run in 16: a large, mostly-equal-salience rule set (sorting algorithms switch strategy
        // above ~20 elements; an unstable sort only shows there)
        let large = rng.chance(1, 16);
        let n = if large { if rng.chance(1, 4) { 65 + rng.usize(66) } else { 21 + rng.usize(28) } } else { 1 + rng.usize(8) };
        let mut rules = Vec::new();
        for _ in 0..n {
            let mut r = gen_rule(rng, next_id);
            if large {
                r.salience = *rng.pick(&[0i32, 0, 0, 0, 1]);
                r.cond = Cond::Atom { field: 0, op: 5, lit: 0 };
                r.set = None;
                r.enabled = true;
            }
            rules.push(r);
            next_id += 1;
        }
        let nops = 1 + rng.usize(10);
        let mut ops = Vec::new();
        let mut removed: Vec<u32> = Vec::new();
        for _ in 0..nops {
            let w = rng.weighted(&[30, 8, 8, if dates_on { 8 } else { 2 }, if groups_on { 8 } else { 1 }, if groups_on { 5 } else { 1 }, if groups_on { 3 } else { 1 }, if groups_on { 4 } else { 0 }, 5, 4, 5, 4, 8]);
            ops.push(match w {
                0 => FOp::ExecAt(rng.below(13) as u8),
                1 => FOp::Exec,
                2 => FOp::ExecCb,
                3 => FOp::ClockSet(rng.below(13) as u8),
                4 => FOp::SetFocus(rng.below(3) as u8),
                5 => FOp::PopFocus,
                6 => FOp::ClearFocus,
                7 => FOp::ActivateGroup(rng.below(3) as u8),
                8 => FOp::ResetNoLoop,
                9 => FOp::SetEnabled(rng.below(8) as u8, rng.chance(1, 2)),
                10 => {
                    let id = if !removed.is_empty() && rng.chance(1, 2) {
                        removed.pop().unwrap()
                    } else {
                        next_id += 1;
                        next_id - 1
                    };
                    FOp::AddRule(gen_rule(rng, id))
                }
                11 => {
                    let i = rng.below(8) as u8;
                    removed.push(i as u32 % n as u32);
                    FOp::RemoveRule(i)
                }
                _ => FOp::SetFact(rng.below(3) as u8, rng.range(0, 3)),
            });
        }
        ops.push(if rng.chance(2, 3) { FOp::ExecAt(rng.below(13) as u8) } else { FOp::Exec });
        // one run in five: some rules carry an action that fails (first or last in their action list), so that
        // execute calls return Err in the middle of a pass and the history goes on from there
        if !large && rng.chance(1, 5) {
            for r in rules.iter_mut() {
                if rng.chance(1, 4) {
                    r.fail = Some(rng.below(2) as u8);
                }
            }
            for o in ops.iter_mut() {
                if let FOp::AddRule(r) = o {
                    if rng.chance(1, 4) {
                        r.fail = Some(rng.below(2) as u8);
                    }
                }
            }
        }
        FwdTrace {
            hash_seed,
            max_cycles: *rng.pick(&[0usize, 1, 2, 3, 3, 8, 8]),
            rules,
            facts: [rng.range(0, 3), rng.range(0, 3), rng.range(0, 3)],
            ops,
            tick_pattern: if rng.chance(1, 5) { vec![*rng.pick(&[1u8, 250, 250]), 0] } else { vec![] },
            cfg: (rng.chance(1, 3), rng.chance(1, 10), rng.chance(1, 6)),
            frac: *rng.pick(&[0u16, 0, 250, 750]),
            epoch: if rng.chance(1, 8) { 1 } else { 0 },
            names: if !large && rng.chance(1, 6) { 1 } else { 0 },
        }
    }

    fn hash_seed(&self, t: &FwdTrace) -> u64 {
        t.hash_seed
    }

    fn run(&self, _prop: &str, t: &FwdTrace, obs: &mut Obs) -> Result<(), Violation> {
        obs.fp_str(&serde_json::to_string(t).unwrap_or_default());
        FRAC.with(|f| f.set(t.frac as i64));
        EPOCH.with(|e| e.set(t.epoch));
        NAMES.with(|n| n.set(t.names));
        if t.epoch == 1 {
            obs.count("probe.dates_beyond_the_year_2262");
        }
        if t.names == 1 {
            obs.count("probe.names_that_differ_only_in_case_or_white_space");
        }
        if t.rules.len() > 64 {
            obs.count("probe.more_than_64_rules");
        }
        if t.frac != 0 && t.rules.iter().any(|r| r.effective.is_some() || r.expires.is_some()) {
            obs.count("probe.date_bound_not_on_a_whole_second");
        }
        clock::install(eval_ms(3) as u64);
        clock::set_tick_pattern(t.tick_pattern.clone());
        obs.faulty = !t.tick_pattern.is_empty() || t.ops.iter().any(|o| matches!(o, FOp::ClockSet(_)));
        let kb = KnowledgeBase::new("kb");
        let mut engine = RustRuleEngine::with_config(kb, EngineConfig { max_cycles: t.max_cycles, timeout: if t.cfg.2 { Some(std::time::Duration::from_secs(3600)) } else { None }, enable_stats: t.cfg.0, debug_mode: t.cfg.1 });
        let facts = Facts::new();
        let mut obj = HashMap::new();
        obj.insert("x".to_string(), Value::Integer(t.facts[0]));
        obj.insert("y".to_string(), Value::Integer(t.facts[1]));
        obj.insert("z".to_string(), Value::Integer(t.facts[2]));
        let _ = facts.add_value("F", Value::Object(obj));
        let mut states = vec![MState {
            rules: Vec::new(),
            facts: t.facts,
            stack: vec!["MAIN".to_string()],
            active: "MAIN".to_string(),
            lock_record: BTreeMap::new(),
            noloop_fired: BTreeSet::new(),
            wf_queue: Vec::new(),
            eff_incl: None,
            exp_incl: None,
        }];
        // names in insertion order (what SetEnabled / RemoveRule indices refer to)
        let mut order: Vec<String> = Vec::new();
        let mut too_many = false;
        let mut add = |r: &FRule, engine: &mut RustRuleEngine, states: &mut Vec<MState>, order: &mut Vec<String>, too_many: &mut bool, obs: &mut Obs, step: usize| -> Result<(), Violation> {
            let res = engine.knowledge_base().add_rule(to_rule(r));
            let dup = order.contains(&rname(r));
            if dup != res.is_err() {
                return Err(viol("harness.rule-base", "KnowledgeBase::add_rule", "add-rule-result", format!("add_rule({}) -> {res:?}, duplicate name: {dup}", rname(r)), step));
            }
            if !dup {
                order.push(rname(r));
            }
            let r2 = r.clone();
            let before = states.len();
            let next = expand(states, &move |s: &mut MState, ch: &mut Chooser| s.add_rule(&r2, ch), too_many);
            *states = next.into_iter().map(|(s, _)| s).collect();
            if states.len() > before {
                obs.count("probe.either_point_branched");
            }
            Ok(())
        };
        for r in &t.rules {
            add(r, &mut engine, &mut states, &mut order, &mut too_many, obs, 0)?;
        }
        if t.rules.len() > 20 {
            obs.count("probe.large_rule_set");
        }
        let mut removed_names: BTreeSet<String> = BTreeSet::new();
        let mut exec_calls = 0;
        let mut total_fired = 0;
        for (step, op) in t.ops.iter().enumerate() {
            if too_many || states.len() > 48 {
                obs.count("probe.too_many_either_points_run_abandoned");
                break;
            }
            match op {
                FOp::ClockSet(e) => {
                    let now = clock::now_ms() as i64;
                    if eval_ms(*e) < now {
                        obs.count("fault.clock_set_backward");
                    }
                    clock::set_wall_ms(eval_ms(*e) as u64);
                }
                FOp::SetFocus(g) => engine.set_agenda_focus(&group(*g)),
                FOp::PopFocus => {
                    engine.pop_agenda_focus();
                }
                FOp::ClearFocus => engine.clear_agenda_focus(),
                FOp::ActivateGroup(g) => engine.activate_agenda_group(group(*g)),
                FOp::ResetNoLoop => engine.reset_no_loop_tracking(),
                FOp::SetFact(f, v) => {
                    if facts.set_nested(fname(*f), Value::Integer(*v)).is_err() {
                        return Err(viol("harness.facts", "Facts::set_nested", "set-nested-failed", "set_nested on the fact object failed".into(), step));
                    }
                }
                FOp::SetEnabled(i, on) => {
                    if !order.is_empty() {
                        let name = order[*i as usize % order.len()].clone();
                        let _ = engine.knowledge_base().set_rule_enabled(&name, *on);
                        for s in states.iter_mut() {
                            for r in s.rules.iter_mut().filter(|r| rname(r) == name) {
                                r.enabled = *on;
                            }
                        }
                    }
                }
                FOp::RemoveRule(i) => {
                    if !order.is_empty() {
                        let name = order.remove(*i as usize % order.len());
                        let _ = engine.knowledge_base().remove_rule(&name);
                        removed_names.insert(name.clone());
                        for s in states.iter_mut() {
                            s.rules.retain(|r| rname(r) != name);
                        }
                    }
                }
                FOp::AddRule(r) => {
                    if removed_names.contains(&rname(r)) && !order.contains(&rname(r)) {
                        obs.count("probe.rule_re_added_under_old_name");
                    }
                    add(r, &mut engine, &mut states, &mut order, &mut too_many, obs, step)?;
                }
                FOp::ExecAt(_) | FOp::Exec | FOp::ExecCb => {
                    let _ = facts.add_value("trace", Value::Array(vec![]));
                    let mut cb_names: Vec<String> = Vec::new();
                    clock::begin_call();
                    let site = match op {
                        FOp::ExecAt(_) => "RustRuleEngine::execute_at_time",
                        FOp::Exec => "RustRuleEngine::execute",
                        _ => "RustRuleEngine::execute_with_callback",
                    };
                    let res = budget::with_budget(1_000_000, || match op {
                        FOp::ExecAt(e) => engine.execute_at_time(&facts, dt(eval_ms(*e))),
                        FOp::Exec => engine.execute(&facts),
                        _ => engine.execute_with_callback(&facts, |name, _f| cb_names.push(name.to_string())),
                    });
                    let reads = clock::shown_list();
                    let may_fail = states.iter().any(|s| s.rules.iter().any(|r| r.fail.is_some()));
                    let result: Option<_> = match res {
                        Ok(Ok(r)) => Some(r),
                        Ok(Err(_)) if may_fail => {
                            obs.count("probe.execute_call_failed_in_an_action");
                            None
                        }
                        Ok(Err(e)) => return Err(viol("result.returns", site, "execute-returned-error", format!("execute failed on a typed-core rule set: {e}"), step)),
                        Err(p) => return Err(viol("result.returns", site, "execute-panicked", format!("execute panicked: {}", panic_text(&p)), step)),
                    };
                    // the instant(s) the call may have evaluated at
                    let instants: Vec<i64> = match op {
                        FOp::ExecAt(e) => vec![eval_ms(*e)],
                        _ => {
                            obs.count("probe.execute_via_utc_seam");
                            if reads.len() > 1 && reads.iter().any(|r| *r != reads[0]) {
                                obs.count("fault.clock_tick_on_read");
                            }
                            let mut v: Vec<i64> = reads.iter().map(|r| *r as i64).collect();
                            v.sort();
                            v.dedup();
                            if v.is_empty() {
                                // the call did not read the simulated clock at all: it cannot know the instant
                                return Err(viol("gate.date-window", site, "entry-point-did-not-read-the-clock-seam", "execute() did not read the (simulated) clock: the evaluation instant does not come from the clock the caller sees".into(), step));
                            }
                            if !t.tick_pattern.is_empty() {
                                obs.count("fault.clock_tick_on_read");
                            }
                            v
                        }
                    };
                    let trace = read_trace(&facts);
                    // (when the call failed in the last action of a rule, that rule's actions ran but whether the
                    // call-back still hears of it the property does not say)
                    let cb_ok = cb_names == trace || (result.is_none() && !trace.is_empty() && cb_names[..] == trace[..trace.len() - 1]);
                    if matches!(op, FOp::ExecCb) && !cb_ok {
                        return Err(viol("order.salience-then-insertion", site, "callback-sequence-differs-from-action-sequence", format!("callback saw {cb_names:?}, actions ran as {trace:?}"), step));
                    }
                    let fvals = match read_facts(&facts) {
                        Some(f) => f,
                        None => return Err(viol("actions.facts", site, "fact-object-damaged", "F.x / F.y / F.z are no longer integers".into(), step)),
                    };
                    let (rc, rf) = result.as_ref().map_or((0, 0), |r| (r.cycle_count, r.rules_fired));
                    obs.fp_str(&format!("{trace:?}|{rc}|{rf}|{fvals:?}|{}", result.is_none()));
                    let observed = Outcome { fired: trace.clone(), cycle_count: rc, rules_fired: rf, active: engine.get_active_agenda_group().to_string(), facts: fvals, failed: result.is_none() };
                    // predictions of every state still alive, for every admissible instant
                    let mut all: Vec<(MState, Outcome)> = Vec::new();
                    let before_states = states.len();
                    for ti in &instants {
                        let (ti, mc) = (*ti, t.max_cycles);
                        for x in expand(&states, &move |s: &mut MState, ch: &mut Chooser| s.exec(ti, mc, ch), &mut too_many) {
                            if !all.contains(&x) {
                                all.push(x);
                            }
                        }
                        for r in states.iter().flat_map(|s| s.rules.iter()) {
                            if r.effective.map_or(false, |e| lattice_ms(e) == ti) || r.expires.map_or(false, |e| lattice_ms(e) == ti) {
                                obs.count("probe.instant_exactly_on_effective_or_expires");
                                break;
                            }
                        }
                    }
                    if all.len() > before_states * instants.len() {
                        obs.count("probe.either_point_branched");
                    }
                    let survivors: Vec<MState> = all.iter().filter(|(_, o)| *o == observed).map(|(s, _)| s.clone()).collect();
                    if survivors.is_empty() {
                        if too_many {
                            obs.count("probe.too_many_either_points_run_abandoned");
                            break;
                        }
                        // report against the prediction closest to the observation
                        let (pre, pred) = {
                            let best = all.iter().enumerate().max_by_key(|(_, (_, o))| o.fired.iter().zip(&observed.fired).take_while(|(a, b)| a == b).count()).map(|(i, _)| i).unwrap_or(0);
                            (states[0].clone(), all[best].1.clone())
                        };
                        let (clause, sig) = classify(&observed, &pred, &pre, instants[0]);
                        return Err(viol(
                            clause,
                            site,
                            sig,
                            format!(
                                "at instant(s) {:?} (lattice base {}, max_cycles {}): observed fired {:?} cycles {} fired-count {} active {} facts {:?}; no admissible reading of the property predicts that — closest prediction: fired {:?} cycles {} fired-count {} active {} facts {:?} ({} prediction(s) considered)",
                                instants, base_ms(), t.max_cycles, observed.fired, observed.cycle_count, observed.rules_fired, observed.active, observed.facts, pred.fired, pred.cycle_count, pred.rules_fired, pred.active, pred.facts, all.len()
                            ),
                            step,
                        ));
                    }
                    // probes on what this call exercised (taken from the first surviving explanation)
                    {
                        let pre = &states[0];
                        let names = &observed.fired;
                        for w in names.windows(2) {
                            let (a, b) = (pre.rules.iter().find(|r| rname(r) == w[0]), pre.rules.iter().find(|r| rname(r) == w[1]));
                            if let (Some(a), Some(b)) = (a, b) {
                                if a.salience == b.salience && a.name_id != b.name_id {
                                    obs.count("probe.equal_salience_pair_both_fired");
                                }
                            }
                        }
                        for r in &pre.rules {
                            if !r.enabled || !eval_cond(&r.cond, &pre.facts) {
                                continue;
                            }
                            let n = rname(r);
                            if !names.contains(&n) {
                                if r.no_loop && pre.noloop_fired.contains(&n) {
                                    obs.count("probe.no_loop_blocked_a_rule");
                                }
                                if r.lock_on_active && pre.lock_record.values().any(|s| s.contains(&n)) {
                                    obs.count("probe.lock_on_active_blocked_a_rule");
                                }
                                if r.activation_group > 0 && names.iter().any(|m| pre.rules.iter().any(|x| rname(x) == *m && x.activation_group == r.activation_group)) {
                                    obs.count("probe.activation_group_blocked_a_rule");
                                }
                                let ti = instants[0];
                                if r.effective.map_or(false, |e| ti < lattice_ms(e)) || r.expires.map_or(false, |e| ti > lattice_ms(e)) {
                                    obs.count("probe.date_window_blocked_a_rule");
                                }
                            }
                        }
                        if observed.active != pre.active {
                            obs.count("probe.agenda_group_action_switched_focus");
                        }
                    }
                    states = Vec::new();
                    for s in survivors {
                        if !states.contains(&s) {
                            states.push(s);
                        }
                    }
                    exec_calls += 1;
                    total_fired += observed.fired.len();
                    continue;
                }
            }
            // model side of the non-execute operations
            if !matches!(op, FOp::AddRule(_) | FOp::SetEnabled(..) | FOp::RemoveRule(_) | FOp::ClockSet(_)) {
                let op2 = op.clone();
                let before = states.len();
                let next = expand(&states, &move |s: &mut MState, ch: &mut Chooser| s.apply(&op2, ch), &mut too_many);
                states = Vec::new();
                for (s, _) in next {
                    if !states.contains(&s) {
                        states.push(s);
                    }
                }
                if states.len() > before {
                    obs.count("probe.either_point_branched");
                }
            }
            // the active group is observable after every operation
            let active = engine.get_active_agenda_group().to_string();
            if !states.iter().any(|s| s.active == active) {
                return Err(viol("focus.active-group", "RustRuleEngine::get_active_agenda_group", "active-agenda-group-differs", format!("after {op:?} the active agenda group is {active}, expected {}", states[0].active), step));
            }
            states.retain(|s| s.active == active);
        }
        obs.nontrivial = exec_calls >= 2 && total_fired >= 3;
        clock::uninstall();
        Ok(())
    }

    fn shrink(&self, t: &FwdTrace) -> Vec<FwdTrace> {
        let mut out = Vec::new();
        for v in drop_chunks(&t.ops) {
            out.push(FwdTrace { ops: v, ..t.clone() });
        }
        for v in drop_chunks(&t.rules) {
            out.push(FwdTrace { rules: v, ..t.clone() });
        }
        if !t.tick_pattern.is_empty() {
            out.push(FwdTrace { tick_pattern: vec![], ..t.clone() });
        }
        if t.epoch != 0 {
            out.push(FwdTrace { epoch: 0, ..t.clone() });
        }
        if t.names != 0 {
            out.push(FwdTrace { names: 0, ..t.clone() });
        }
        let simplify = |r: &FRule| -> Vec<FRule> {
            let mut alts = Vec::new();
            let mut push = |f: &dyn Fn(&mut FRule)| {
                let mut b = r.clone();
                f(&mut b);
                if b != *r {
                    alts.push(b);
                }
            };
            push(&|b| b.fail = None);
            push(&|b| b.effective = None);
            push(&|b| b.expires = None);
            push(&|b| b.activate = None);
            push(&|b| b.set = None);
            push(&|b| b.activation_group = 0);
            push(&|b| b.agenda_group = 0);
            push(&|b| b.lock_on_active = false);
            push(&|b| b.no_loop = false);
            push(&|b| b.enabled = true);
            push(&|b| b.salience = 0);
            push(&|b| b.cond = Cond::Atom { field: 0, op: 5, lit: 0 });
            match &r.cond {
                Cond::And(a, c) | Cond::Or(a, c) => {
                    let (a, c) = ((**a).clone(), (**c).clone());
                    push(&|b| b.cond = a.clone());
                    push(&|b| b.cond = c.clone());
                }
                Cond::Not(a) => {
                    let a = (**a).clone();
                    push(&|b| b.cond = a.clone());
                }
                _ => {}
            }
            alts
        };
        for i in 0..t.rules.len() {
            for b in simplify(&t.rules[i]) {
                let mut c = t.clone();
                c.rules[i] = b;
                out.push(c);
            }
        }
        for i in 0..t.ops.len() {
            if let FOp::AddRule(r) = &t.ops[i] {
                for b in simplify(r) {
                    let mut c = t.clone();
                    c.ops[i] = FOp::AddRule(b);
                    out.push(c);
                }
            }
            if let FOp::Exec | FOp::ExecCb = &t.ops[i] {
                let mut c = t.clone();
                c.ops[i] = FOp::ExecAt(3);
                out.push(c);
            }
        }
        if t.max_cycles > 1 {
            out.push(FwdTrace { max_cycles: t.max_cycles - 1, ..t.clone() });
        }
        if t.facts != [0, 0, 0] {
            out.push(FwdTrace { facts: [0, 0, 0], ..t.clone() });
        }
        if t.hash_seed != 1 {
            out.push(FwdTrace { hash_seed: 1, ..t.clone() });
        }
        if t.frac != 0 {
            out.push(FwdTrace { frac: 0, ..t.clone() });
        }
        out
    }
}
